"""C07 -- a listing is exactly the visible entries, once each, in a stable order."""
from __future__ import annotations

import vk.hx as hx
from harness import dirlib as dl
from vk import memvfs as mv
from vk.driver import Ob

META = {
    "level": "other",
    "technique": "bounded symbolic execution (CrossHair/z3) of the real directory handlers over an in-memory VFS: ignore-test wiring with a symbolic re.search stub, listdir order as a symbolic permutation, the UMN comparator against its documented key on unbounded integers, retrievability of hidden names on symbolic names",
    "claim": "The ignore test is wired as documented (pattern from the configuration, subject = directory selector + '/' + name, one call per enumerated "
    "name, a name is kept iff the test fails; UMN additionally diverts dot-files) for symbolic verdicts; the listing is identical for every "
    "permutation of the OS enumeration order of a pool that contains overlapping link files; the comparator is a total preorder equal to the "
    "documented key order for all integers; names kept out of listings are served when requested exactly.",
    "trusted": "CrossHair/z3; MemVFS; the configured ignore pattern itself is the oracle (its regex semantics are Python's re).",
    "explanation": "Wiring + permutation invariance + comparator laws, each decided over symbolic inputs within stated bounds.",
    "assumptions": [
        "pools are finite (stated per obligation); the permutation obligation enumerates all orders of its pool through symbolic Lehmer indices",
        "dot-file exclusion is a UMNDirHandler feature (the shipped handler); the plain DirHandler excludes only what the ignore pattern names",
    ],
}


def _proto(cfg):
    return hx.ns(server=hx.make_server(cfg), requesthandler=hx.make_rh(False), config=cfg)


# ------------------------------------------------------------------ C07.1 ignore-test wiring

POOL1 = ["x", ".dot", "lib", ".ddir"]


def body_wiring(umn: bool, root: bool, v0: bool, v1: bool, v2: bool, v3: bool, perm: int) -> bool:
    from pygopherd.handlers import UMN, dir as dirmod

    base = "/" if root else "/d"
    pre = "" if root else "/d"
    verdicts = {"x": v0, ".dot": v1, "lib": v2, ".ddir": v3}
    order = [[0, 1, 2, 3], [3, 2, 1, 0], [1, 3, 0, 2], [2, 0, 3, 1]][perm]
    names = [POOL1[i] for i in order]
    nodes = {"/": mv.Dir(["d"] + (names if root else [])), "/d": mv.Dir(names)}
    for n in POOL1:
        nodes[pre + "/" + n] = mv.Dir([]) if n == ".ddir" else mv.File(b"Name=Link\nPath=/elsewhere\nHost=h\nPort=70\n" if n == ".dot" else b"data\n")
    if root:
        nodes["/d"] = mv.Dir([])
    cfg = dl.config()
    ign = cfg.get("handlers.dir.DirHandler", "ignorepatt")
    vfs = mv.MemVFS(cfg, nodes)
    dl.install_dir_env(vfs, 5000, dl.PickleStub())
    calls = []

    def search(pattern, string, flags=0):
        calls.append((pattern, string))
        key = string.rsplit("/", 1)[-1]
        return verdicts.get(key, False)

    real_re = dirmod.re
    dirmod.re = hx.ns(search=search, match=real_re.match, compile=real_re.compile)
    try:
        cls = UMN.UMNDirHandler if umn else dirmod.DirHandler
        h = cls(base, "", _proto(cfg), cfg, vfs.stat(base), vfs)
        h.prepare()
        got = [e.selector for e in h.getdirlist()]
    finally:
        dirmod.re = real_re
        dl.restore_dir_env()
    hx.reach()
    listed = sorted(names + (["d"] if root else []))
    want_calls = [(ign, pre + "/" + n) for n in listed]
    hx.require(sorted(calls) == sorted(want_calls), "C07:ignore-test-wiring", lambda: "calls=%r expected=%r" % (calls, want_calls))
    keep = []
    for n in listed:
        if verdicts.get(n, False):
            continue
        if umn and n.startswith("."):
            continue
        keep.append(pre + "/" + n)
    extra = ["/elsewhere"] if (umn and not v1) else []  # the link file's own entry
    hx.require(sorted(got) == sorted(keep + extra), "C07:listing-not-exactly-visible-entries",
               lambda: "%s base=%s verdicts=%r: got %r expected %r" % ("UMN" if umn else "Dir", base, verdicts, got, keep + extra))
    return True


# ------------------------------------------------------------------ C07.2 order independence

POOL2 = [".Links", ".names", "a.txt", "b.txt", "zdir", "hid", "b2.txt"]
LINKS = b"Name=From Links\nPath=./a.txt\nNumb=2\n\nName=Remote\nType=1\nPath=/r1\nHost=h.example\nPort=70\nNumb=1\n\nType=X\nPath=./b2.txt\n"
NAMESF = b"Name=From names\nPath=./a.txt\nAbstract=abs from names\n\nName=Bee\nPath=./b.txt\nNumb=-1\n\nType=X\nPath=./hid/\n\nName=Title for the hidden one\nPath=./b2.txt\n\nType=X\nPath=./b2.txt\n\nType=X\nPath=./gone-long-ago.txt\n\nType=-\nPath=./dash.txt\n"


EXTRA2 = [".cap", "capx.txt", "aa-dangling", "dash.txt"]  # always enumerated last; sorting puts the dangling link FIRST


def _nodes2(order):
    import errno

    names = [POOL2[i] for i in order] + EXTRA2
    nodes = {"/": mv.Dir(["d"]), "/d": mv.Dir(names), "/d/.Links": mv.File(LINKS), "/d/.names": mv.File(NAMESF),
             "/d/a.txt": mv.File(b"a\n"), "/d/b.txt": mv.File(b"b\n"), "/d/zdir": mv.Dir([]), "/d/hid": mv.Dir([]), "/d/b2.txt": mv.File(b"b2\n"),
             # hidden by its .cap file (which, like most hand-edited files, ends with an empty line)
             "/d/.cap": mv.Dir(["capx.txt"]), "/d/.cap/capx.txt": mv.File(b"Type=X\n\n"), "/d/capx.txt": mv.File(b"c\n"),
             # an entry that cannot be served must not take the ones after it with it
             "/d/aa-dangling": mv.Fail(errno.ENOENT),
             # hidden by a `Type=-` block; b2.txt is hidden twice (.Links and .names); one block hides a file that is gone
             "/d/dash.txt": mv.File(b"-\n")}
    return nodes


def _listing2(umn, order):
    from pygopherd.handlers import UMN, dir as dirmod

    cfg = dl.config()
    vfs = mv.MemVFS(cfg, _nodes2(order))
    dl.install_dir_env(vfs, 5000, dl.PickleStub())
    try:
        cls = UMN.UMNDirHandler if umn else dirmod.DirHandler
        h = cls("/d", "", _proto(cfg), cfg, vfs.stat("/d"), vfs)
        h.prepare()
        return [(e.type, e.name, e.selector, e.host, e.port, e.num, e.getea("ABSTRACT")) for e in h.getdirlist()]
    finally:
        dl.restore_dir_env()


REF2 = {}
for _u in (False, True):
    try:
        REF2[_u] = _listing2(_u, [0, 1, 2, 3, 4, 5, 6])
    except Exception as _e:  # judged in the body (a crash here would hide the finding)
        REF2[_u] = None


def body_order(umn: bool, i0: int, i1: int, i2: int, i3: int, i4: int) -> bool:
    rest = [0, 1, 2, 3, 4, 5]
    order = []
    for i in (i0, i1, i2, i3, i4):
        order.append(rest.pop(i))
    order.append(rest[0])
    order.insert(i4 + i0 if i4 + i0 <= 6 else 6, 6)  # the 7th name (hidden by .Links, named by .names) at a derived position
    try:
        got = _listing2(umn, order)
    except Exception as e:
        raise hx.Violation("C07:listing-raises:%s" % type(e).__name__, "%s order=%r: %r" % ("UMN" if umn else "Dir", [POOL2[i] for i in order], e))
    hx.reach()
    hx.require(REF2[umn] is not None and got == REF2[umn], "C07:listing-depends-on-enumeration-order",
               lambda: "%s order=%r: %r vs sorted-order listing %r" % ("UMN" if umn else "Dir", [POOL2[i] for i in order], got, REF2[umn]))
    sels = [g[2] for g in got]
    hx.require(len(sels) == len(set(sels)), "C07:entry-listed-twice", lambda: repr(sels))
    if umn:
        # documented: a Type=X block hides the entry it names (also when the Path is written with a trailing slash)
        hx.require("/d/hid" not in sels and "/d/hid/" not in sels and "/d/b2.txt" not in sels and "/d/capx.txt" not in sels and "/d/dash.txt" not in sels and "/d/gone-long-ago.txt" not in sels, "C07:entry-hidden-by-metadata-is-listed", lambda: repr(sels))
        hx.require(sorted(sels) == sorted(["/r1", "/d/a.txt", "/d/b.txt", "/d/zdir"]), "C07:listing-not-exactly-visible-entries", lambda: repr(sels))
    else:
        # the plain DirHandler has no implicit dot-file rule and reads no metadata: everything the ignore pattern lets through
        hx.require(sorted(sels) == sorted(["/d/.Links", "/d/.names", "/d/a.txt", "/d/b.txt", "/d/b2.txt", "/d/capx.txt", "/d/dash.txt", "/d/hid", "/d/zdir"]), "C07:listing-not-exactly-visible-entries", lambda: repr(sels))
    return True


# ------------------------------------------------------------------ C07.3 comparator laws


def _key(num, name):
    cls = 0 if num > 0 else (1 if num == 0 else 2)
    return (cls, num, name)


def _sgn(x):
    return (x > 0) - (x < 0)


def body_entrycmp(n1: int, n2: int, n3: int, s1: str, s2: str, s3: str) -> bool:
    from pygopherd.handlers import UMN

    h = UMN.UMNDirHandler.__new__(UMN.UMNDirHandler)
    es = []
    for n, s in ((n1, s1), (n2, s2), (n3, s3)):
        e = hx.ns(name=s, num=n, getnum=(lambda d=None, n=n: n))
        es.append(e)
    a, b, c = es
    ab, ba, bc, ac = h.entrycmp(a, b), h.entrycmp(b, a), h.entrycmp(b, c), h.entrycmp(a, c)
    hx.reach()
    ka, kb = _key(n1, s1), _key(n2, s2)
    want = (ka > kb) - (ka < kb)
    hx.require(_sgn(ab) == want, "C07:comparator-differs-from-documented-order", lambda: "(%d,%r) vs (%d,%r): cmp=%d documented=%d" % (n1, s1, n2, s2, ab, want))
    hx.require(_sgn(ab) == -_sgn(ba), "C07:comparator-not-antisymmetric", lambda: "(%d,%r),(%d,%r)" % (n1, s1, n2, s2))
    if ab <= 0 and bc <= 0:
        hx.require(ac <= 0, "C07:comparator-not-transitive", lambda: "(%d,%r),(%d,%r),(%d,%r)" % (n1, s1, n2, s2, n3, s3))
    return True


# ------------------------------------------------------------------ C07.4 hidden names stay retrievable


def body_retrievable(name: str, hiddenkind: int) -> bool:
    """A regular file whose name is kept out of listings (dot-file, ignore-pattern match, or an
    arbitrary symbolic name) is served when requested by exact selector iff the selector is secure."""
    from pygopherd import GopherExceptions
    from pygopherd.handlers import HandlerMultiplexer as HM
    from spec import shapes

    fixed = [None, ".hidden", "x~", "robots.txt", "lib", ".cap", "n.abstract", "gophermap"][hiddenkind]
    n = name if fixed is None else fixed
    sel = "/d/" + n
    nodes = {"/": mv.Dir(["d"]), "/d": mv.Dir([n]), sel: mv.File(b"content\n")}
    cfg = dl.config()
    vfs = mv.MemVFS(cfg, nodes)
    dl.install_dir_env(vfs, 5000, dl.PickleStub())
    try:
        try:
            h = HM.getHandler(sel, None, _proto(cfg), cfg, vfs=vfs)
            found = True
        except GopherExceptions.FileNotFound:
            found = False
    finally:
        dl.restore_dir_env()
    hx.reach()
    hx.require(found == shapes.p_secure(sel), "C07:hidden-name-not-retrievable" if not found else "C07:insecure-name-served", lambda: "selector=%r found=%s" % (sel, found))
    return True


def obligations(tier, seed):
    obs = []
    for umn in (True, False):
        for root in (True, False):
            obs.append(Ob(id="C07.1-ignore-wiring[%s,%s]" % ("UMN" if umn else "Dir", "root" if root else "/d"), body="harness.C07:body_wiring",
                          sig="umn: bool, root: bool, v0: bool, v1: bool, v2: bool, v3: bool, perm: int", pre=["umn == %s" % umn, "root == %s" % root, "0 <= perm <= 3"], timeout=240,
                          desc="real prep_initfiles: re.search is called once per enumerated name with (configured pattern, directory selector + '/' + name); a name is listed "
                               "iff the verdict is false (UMN: and it is not a dot-file; a link dot-file contributes its own entry); each kept name appears exactly once",
                          bounds="pool %r, symbolic verdict per name, 4 enumeration orders, %s" % (POOL1, "server root" if root else "sub-directory"),
                          functions=["handlers.dir.DirHandler.prep_initfiles/prep_initfiles_canaddfile", "handlers.UMN.UMNDirHandler.prep_initfiles_canaddfile"]))
    for umn in (True, False):
        for i0 in range(6):
            obs.append(Ob(id="C07.2-order[%s,first=%s]" % ("UMN" if umn else "Dir", POOL2[i0]), body="harness.C07:body_order", sig="umn: bool, i0: int, i1: int, i2: int, i3: int, i4: int",
                          pre=["umn == %s" % umn, "i0 == %d" % i0, "0 <= i1 <= 4", "0 <= i2 <= 3", "0 <= i3 <= 2", "0 <= i4 <= 1"] + (["i1 <= 1", "i2 <= 1"] if tier == "quick" else []), timeout=300 if tier == "quick" else 1200,
                          desc="listing of a directory with two link files overriding the same entry, a numbered remote link, a negative number, a sub-directory and a directory hidden by Type=X is identical "
                               "for every enumeration order starting with %s" % POOL2[i0],
                          bounds="pool %r, orders with this first element (symbolic Lehmer indices: solver-driven enumeration; thorough = all 720 orders, quick = 24 of each 120)" % (POOL2,),
                          functions=["handlers.dir.DirHandler.prepare", "handlers.UMN.UMNDirHandler.prepare/MergeLinkFiles/entrycmp/processLinkFile"]))
    obs.append(Ob(id="C07.3-entrycmp", body="harness.C07:body_entrycmp", sig="n1: int, n2: int, n3: int, s1: str, s2: str, s3: str",
                  pre=["len(s1) <= 2", "len(s2) <= 2", "len(s3) <= 2"], timeout=180,
                  desc="UMNDirHandler.entrycmp == documented key order (positive numbers ascending, then unnumbered by title, then negatives ascending; ties by title); antisymmetric; transitive",
                  bounds="unbounded integers, titles |s| <= 2", functions=["handlers.UMN.UMNDirHandler.entrycmp/sgn", "handlers.UMN.cmp"]))
    for hk in range(8):
        obs.append(Ob(id="C07.4-retrievable[%d]" % hk, body="harness.C07:body_retrievable", sig="name: str, hiddenkind: int",
                      pre=["hiddenkind == %d" % hk] + (["1 <= len(name) <= %d" % (2 if tier == "quick" else 3), "all(c in '.~a' + chr(92) + chr(0) for c in name)"] if hk == 0 else ["len(name) == 0"]), timeout=240 if tier == "quick" else 900,
                      desc="a file kept out of listings (%s) is served by exact selector iff the selector passes the security filter"
                           % ("symbolic name" if hk == 0 else [None, ".hidden", "x~", "robots.txt", "lib", ".cap", "n.abstract", "gophermap"][hk]),
                      bounds=("name symbolic |n| <= %d over {. ~ a \\ NUL}" % (2 if tier == "quick" else 3)) if hk == 0 else "concrete hidden name", functions=["HandlerMultiplexer.getHandler", "handlers.file.FileHandler.canhandlerequest"]))
    return obs
