"""C12 -- one unservable entry never takes down its directory."""
from __future__ import annotations

import errno

import vk.hx as hx
from harness import dirlib as dl
from vk import memvfs as mv
from vk.driver import Ob

META = {
    "level": "other",
    "technique": "bounded symbolic execution (CrossHair/z3) of the real directory handlers and protocol handle() over an in-memory VFS with symbolic fault positions and kinds",
    "claim": "For a pool of up to 4 children the real DirHandler/UMNDirHandler.prepare (and each protocol's handle()) are executed with one or two "
    "children made unservable at symbolic positions with symbolic fault kinds; on every path the listing succeeds and contains every healthy "
    "child in the fault-free relative order. Exhaustive over positions x kinds x pairs within the pool bound."
    " Also with dot-named unservable entries (which the UMN handler would read as link files) and with entry names that sit on handler-selection predicates or contain format characters, the message for the skipped entry being built by the real code.",
    "trusted": "CrossHair/z3; MemVFS stands for the OS (stat/listdir/open answers); fault kinds are stat errnos, special-file modes and rejected names.",
    "explanation": "Fault enumeration with symbolic (position, kind) pairs through the real directory handlers over an in-memory VFS.",
    "assumptions": [
        "kinds 11-13: a regular file whose open() fails although its stat succeeded (ENOENT: deleted in between; EACCES), and a healthy entry next to which a FIFO has the name of its .abstract sidecar (open() on a FIFO never returns: modelled as an exception nothing handles)",
        "an unservable entry is one whose stat fails (ENOENT/EACCES/ELOOP after listdir, e.g. dangling link or deleted file), a FIFO/socket, or a name the selector filter rejects ('..' inside the name); the first five kinds also with a dot-name (which the UMN handler opens as a link file; open() then fails with the same errno, ENXIO for special files)",
        "directory pool: up to 4 children (text file, sub-directory, HTML file, text file); other handler lists than the shipped default are outside this obligation",
    ],
}

NAMES = ["a.txt", "b", "c.html", "d.txt"]
FAULTS = ["stat-ENOENT", "stat-EACCES", "stat-ELOOP", "fifo", "socket", "dotdot-name",
          "dot-named stat-ENOENT", "dot-named stat-EACCES", "dot-named stat-ELOOP", "dot-named fifo", "dot-named socket",
          "open-ENOENT-after-stat", "open-EACCES", "fifo-sidecar"]
NF = len(FAULTS)
# names for the unservable entry: they sit on handler-selection predicates (extensions the handlers
# look at) or contain characters that matter to message formatting
FNAMES = [None, "x.gophermap", "r100%.txt", "%s%d", "q?x", "m.zip", "n.mbox", "t.html.tal", "p.pyg", "g.gz", "a b"]


def _healthy_node(name):
    if name == "b":
        return mv.Dir(["inner.txt"])
    if name.endswith(".html"):
        return mv.File(b"<html><head><title>Title of c</title></head></html>\n")
    return mv.File(b"hello\n")


def _build(n, faults, fname=None):
    """faults: list of (index, kind); fname: another name for the FIRST faulty entry.
    Returns (nodes, healthy selectors in pool order, listed names)."""
    nodes = {"/": mv.Dir(["d"]), "/d/b/inner.txt": mv.File(b"x")}
    listed = []
    healthy = []
    for idx in range(n):
        name = NAMES[idx]
        kind = -1
        for (fi, fk) in faults:
            if fi == idx:
                kind = fk
        if fname is not None and faults and faults[0][0] == idx:
            name = fname
        if kind == 11 or kind == 12:
            # stat succeeds, open does not: deleted between inspection steps, or unreadable
            n0 = _healthy_node(name)
            if isinstance(n0, mv.File):
                n0.open_err = errno.ENOENT if kind == 11 else errno.EACCES
            else:
                healthy.append("/d/" + name)
            nodes["/d/" + name] = n0
            listed.append(name)
            continue
        if kind == 13:
            # the entry itself is fine; a FIFO sits where its .abstract sidecar would be
            nodes["/d/" + name] = _healthy_node(name)
            nodes["/d/" + name + ".abstract"] = mv.Special(mv.S_FIFO)
            healthy.append("/d/" + name)
            listed.append(name)
            listed.append(name + ".abstract")
            continue
        if 6 <= kind <= 10:
            # a dot-named unservable entry (an editor's `.#name` lock link, a socket `.s`): the UMN handler reads dot-files as link files
            name = "." + name
            kind -= 6
        if kind == 5:
            name = "x..y" + name
            nodes["/d/" + name] = mv.File(b"bad name\n")
        elif kind == 0:
            nodes["/d/" + name] = mv.Fail(errno.ENOENT)
        elif kind == 1:
            nodes["/d/" + name] = mv.Fail(errno.EACCES)
        elif kind == 2:
            nodes["/d/" + name] = mv.Fail(errno.ELOOP)
        elif kind == 3:
            nodes["/d/" + name] = mv.Special(mv.S_FIFO)
        elif kind == 4:
            nodes["/d/" + name] = mv.Special(mv.S_SOCK)
        else:
            nodes["/d/" + name] = _healthy_node(name)
            healthy.append("/d/" + name)
        listed.append(name)
    nodes["/d"] = mv.Dir(listed)
    return nodes, healthy


def _listing(umn, nodes, reallog=False):
    from pygopherd.handlers import UMN, dir as dirmod

    cfg = dl.config()
    vfs = mv.MemVFS(cfg, nodes)
    dl.install_dir_env(vfs, 5000, dl.PickleStub())
    if reallog:
        hx.real_exception_log()  # the message for the skipped entry is built by the real code
    try:
        cls = UMN.UMNDirHandler if umn else dirmod.DirHandler
        proto = hx.ns(server=hx.make_server(cfg), requesthandler=hx.make_rh(False), config=cfg)
        h = cls("/d", "", proto, cfg, vfs.stat("/d"), vfs)
        h.prepare()
        return [e.selector for e in h.getdirlist()]
    finally:
        dl.restore_dir_env()


# fault-free reference listings, computed concretely at import (outside the tracer)
REF = {}
for _umn in (False, True):
    for _n in range(1, 5):
        REF[(_umn, _n)] = _listing(_umn, _build(_n, [])[0])


def body_prepare(umn: bool, n: int, i: int, f: int, j: int, g: int, nm: int = 0) -> bool:
    faults = [(i, f)]
    if j >= 0:
        faults.append((j, g))
    nodes, healthy = _build(n, faults, FNAMES[nm])
    try:
        got = _listing(umn, nodes, reallog=(nm != 0))
    except Exception as e:
        raise hx.Violation("C12:listing-failed:%s" % type(e).__name__,
                           "%s n=%d faults=%r name=%r: %r" % ("UMN" if umn else "Dir", n, [(a, FAULTS[b]) for a, b in faults], FNAMES[nm], e))
    hx.reach()
    ref = [s for s in REF[(umn, n)] if s in healthy]
    sub = [s for s in got if s in healthy]
    hx.require(sub == ref, "C12:healthy-entries-missing-or-reordered",
               lambda: "%s n=%d faults=%r: expected %r got %r" % ("UMN" if umn else "Dir", n, [(a, FAULTS[b]) for a, b in faults], ref, got))
    return True


def body_protocol(p: int, i: int, f: int, nm: int = 0) -> bool:
    """Same through each protocol's real handle(): a success status and every healthy name."""
    n = 3
    nodes, healthy = _build(n, [(i, f)], FNAMES[nm])
    cfg = dl.config()
    vfs = mv.MemVFS(cfg, nodes)
    dl.install_dir_env(vfs, 5000, dl.PickleStub())
    if nm != 0:
        hx.real_exception_log()
    w = hx.ListWriter()
    try:
        proto = dl.make_protocol(p, "/d", cfg, w)
        try:
            proto.handle()
        except Exception as e:
            raise hx.Violation("C12:handle-failed:%s" % type(e).__name__, "%s fault=(%d,%s): %r" % (dl.PROTO_NAMES[p], i, FAULTS[f], e))
    finally:
        dl.restore_dir_env()
    out = w.getvalue()
    hx.reach()
    if p in dl.OK_PREFIX:
        hx.require(out.startswith(dl.OK_PREFIX[p]), "C12:error-status", lambda: "%s fault=(%d,%s): %r" % (dl.PROTO_NAMES[p], i, FAULTS[f], out[:80]))
    else:
        hx.require(not out.startswith(b"3"), "C12:error-status", lambda: "%s: %r" % (dl.PROTO_NAMES[p], out[:80]))
    for s in healthy:
        base = s.rsplit("/", 1)[1]
        hx.require(base.encode() in out, "C12:healthy-entry-missing-in-response", lambda: "%s fault=(%d,%s): %s not in %r" % (dl.PROTO_NAMES[p], i, FAULTS[f], base, out[:300]))
    return True


def obligations(tier, seed):
    obs = []
    for umn in (False, True):
        for n in ((3, 4) if tier == "quick" else (1, 2, 3, 4)):
            for i in range(n):
                singles_only = (tier == "quick" and n == 4)
                obs.append(Ob(
                    id="C12.1-prepare[%s,n=%d,i=%d]" % ("UMN" if umn else "Dir", n, i),
                    body="harness.C12:body_prepare",
                    sig="umn: bool, n: int, i: int, f: int, j: int, g: int",
                    pre=["umn == %s" % umn, "n == %d" % n, "i == %d" % i, "0 <= f < %d" % NF, ("j == -1" if singles_only else "-1 <= j < n"), "j != i", "0 <= g < %d" % NF] + (["g == 0"] if singles_only else []),
                    desc="real %s.prepare over MemVFS: children %r, fault at position %d with symbolic kind, optional second fault at a symbolic "
                         "position with symbolic kind %r; listing succeeds and keeps every healthy child in the fault-free order"
                         % ("UMNDirHandler" if umn else "DirHandler", NAMES[:n], i, FAULTS),
                    bounds="pool of %d children; first fault at position %d; %s; 6 fault kinds (symbolic)" % (n, i, "single faults" if singles_only else "single faults and all pairs"),
                    timeout=240 if tier == "quick" else 900,
                    functions=["handlers.dir.DirHandler.prepare/prep_initfiles/prep_entries", "handlers.UMN.UMNDirHandler.prepare", "HandlerMultiplexer.getHandler"],
                ))
    for umn in (False, True):
        obs.append(Ob(id="C12.3-names[%s]" % ("UMN" if umn else "Dir"), body="harness.C12:body_prepare", sig="umn: bool, n: int, i: int, f: int, j: int, g: int, nm: int",
                      pre=["umn == %s" % umn, "n == 3", "0 <= i < 3", "0 <= f <= 10", "j == -1", "g == 0", "1 <= nm < %d" % len(FNAMES)], timeout=300 if tier == "quick" else 900,
                      desc="real %s.prepare: one unservable entry at a symbolic position, of symbolic kind, carrying a symbolic one of the names %r (extensions the handlers key on, format characters): the listing succeeds with every healthy child"
                           % ("UMNDirHandler" if umn else "DirHandler", FNAMES[1:]),
                      bounds="3 positions x 11 fault kinds (those that make the entry itself unservable) x %d names (symbolic)" % (len(FNAMES) - 1), functions=["handlers.*.canhandlerequest (all handlers of the list, on an entry whose stat failed)", "GopherExceptions.FileNotFound", "DirHandler.prep_entries"]))
    obs.append(Ob(id="C12.3b-names-protocols", body="harness.C12:body_protocol", sig="p: int, i: int, f: int, nm: int",
                  pre=["0 <= p <= 6", "i == 1", "f == 0 or f == 3 or f == 5", "1 <= nm < %d" % len(FNAMES)], timeout=300,
                  desc="each protocol's real handle() with one unservable entry carrying a symbolic one of the special names: success status and every healthy name",
                  bounds="7 protocol forms x 3 fault kinds x %d names (symbolic)" % (len(FNAMES) - 1), functions=["protocols.*.handle"]))
    obs.append(Ob(
        id="C12.2-protocols",
        body="harness.C12:body_protocol",
        sig="p: int, i: int, f: int",
        pre=["0 <= p <= 6", "0 <= i < 3", "0 <= f < %d" % NF],
        desc="each protocol's real handle() for the directory with one faulty child: success status and every healthy name in the response",
        bounds="7 protocol forms x 3 positions x %d fault kinds (symbolic), pool of 3" % NF,
        timeout=240,
        functions=["protocols.*.handle", "protocols.base.writedir"],
    ))
    return obs
