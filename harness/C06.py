"""C06 -- the same site is seen through every protocol."""
from __future__ import annotations

import vk.hx as hx
from harness import dirlib as dl
from harness import renderlib as rl
from vk.driver import Ob

META = {
    "level": "other",
    "technique": "bounded symbolic execution (CrossHair/z3) of the real renderers of all protocols on the same symbolic entries with independent per-format parsers, of the shared directory walk with recording renderers, of the MIME adjustment functions, and of each protocol's request parser for trailing slashes and search strings (recording codec stubs)",
    "claim": "For symbolic entries (local, URL:, remote by host and/or port, informational; all item types) every protocol's rendering is parsed back by an "
    "independent parser of that format and yields the entry's display name and an equivalent target, hence any two protocols agree; the directory "
    "walk renders each entry exactly once in list order for every protocol and abstract setting; menu MIME types are mapped as documented; a "
    "directory selector with and without a trailing slash reaches handler selection identically; the search string of each protocol's own mechanism "
    "reaches handler selection through one decoding with the same error handler."
    " The MIME type each protocol's handle() advertises is its rendering of the entry's one MIME type whatever the encoding fields say; selectors that merely contain URL: are ordinary links in every protocol.",
    "trusted": "CrossHair/z3; tagging codec stubs (contract validated in C05.2); independent extractors in harness/renderlib.py.",
    "explanation": "Per-protocol render/parse agreement on symbolic entries + shared-walk and parser wiring obligations.",
    "assumptions": [
        "icons, page chrome and Gopher+ block contents (C15) are outside this property",
        "search strings have no leading/trailing blanks (Gopher request parsing strips them), per the property text",
    ],
}

TYPES = ["0", "1", "7", "h", "i", "9"]
KINDS = [0, 2, 3, 4, 5]


def _mk(cfg, form, typ, name, tail, port):
    if form == 0:
        return rl.entry(cfg, typ, name, "/d/" + tail, mimetype="text/plain")
    if form == 1:
        return rl.entry(cfg, typ, name, "URL:http://x.example/" + tail, mimetype="text/html")
    if form == 2:
        return rl.entry(cfg, typ, name, "/r/" + tail, host="other.example", port=port, mimetype="text/plain")
    if form == 3:  # this host, another port
        return rl.entry(cfg, typ, name, "/p/" + tail, host=None, port=port, mimetype="text/plain")
    if form == 4:  # another host, default port
        return rl.entry(cfg, typ, name, "/h/" + tail, host="other.example", port=None, mimetype="text/plain")
    if form == 6:  # a local selector that merely CONTAINS "URL:" (only a selector that starts with it is a URL link)
        return rl.entry(cfg, typ, name, "/d/xURL:" + tail, mimetype="text/plain")
    if form == 7:
        return rl.entry(cfg, typ, name, "/r/URL:y" + tail, host="other.example", port=port, mimetype="text/plain")
    return rl.entry(cfg, "i", name, "fake", host="(NULL)", port=0)


FORMS = ["local", "url", "remote", "port-only", "host-only", "info", "local-containing-URL:", "remote-containing-URL:"]


def body_agree(kind: int, form: int, t: int, name: str, tail: str, port: int) -> bool:
    cfg = hx.DictConfig(True)
    typ = TYPES[t]
    if form == 5:
        typ = "i"
    if form == 1 and " " in tail:
        return True  # a URL with a raw blank is not a URL
    e = _mk(cfg, form, typ, name, tail, port)
    q = rl.QuoteStub()
    q.install()
    SP = 7071  # this server listens on a port that is not Gopher's default: "no port" means THIS port in every protocol
    hx.SERVER_PORT = SP
    try:
        pr = rl.proto(kind, cfg)
        if kind in (2, 3):
            pr.iconmapping = {}
            pr.entry = rl.entry(cfg, "1", "dir", "/d", mimetype="application/gopher-menu")
            if kind == 3:
                pr.renderdirstart(pr.entry)
        text = pr.renderobjinfo(e)
        tx, nx, target = rl.extract(kind, text)
    finally:
        q.uninstall()
        hx.SERVER_PORT = 70
    hx.reach()
    pn = dl.PROTO_NAMES[kind]
    for (qa, qkw, qtok) in q.q:
        hx.require(qkw.get("bytes") or qkw.get("errors") == "surrogateescape", "C06:quote-error-handler:%s" % pn, lambda: "quote(%r, %r)" % (qa, qkw))
    # display name
    hx.require(nx == name, "C06:display-name-differs:%s" % pn, lambda: "entry name=%r rendered=%r parsed=%r" % (name, text, nx))
    if kind == 0:
        hx.require(tx == typ, "C06:item-type-differs:%s" % pn, lambda: repr(text))
    if typ == "i":
        if kind != 0:
            hx.require(target is None, "C06:info-line-rendered-as-link:%s" % pn, lambda: repr(text))
        return True
    if kind == 0:
        want = (e.selector, e.host if e.host is not None else "srv.example", str(e.port if e.port is not None else SP))
        hx.require(target == want, "C06:target-differs:%s" % pn, lambda: "entry=%r rendered=%r" % ((e.selector, e.host, e.port), text))
        return True
    if typ == "7" and kind in (2, 3):
        pass  # search items are forms whose action is the same target
    hx.require(target is not None, "C06:link-entry-rendered-without-link:%s" % pn, lambda: repr(text))
    tok = {a: k for (a, kw, k) in q.q} if False else None
    quoted = [(a, k) for (a, kw, k) in q.q]

    def tok_of(x):
        from vk.symbytes import text_of

        for a, k in quoted:
            av = a if isinstance(a, str) else text_of(a)
            if av == x:
                return k
        return None

    if form in (0, 6):
        wt = tok_of(e.selector)
        if kind == 3 and wt is not None:
            wt = "/wap" + wt
        if kind == 4 and typ == "7" and wt is not None:
            wt = "/GEMINI-QUERY" + wt
        hx.require(wt is not None and target == wt, "C06:local-target-differs:%s" % pn, lambda: "selector=%r rendered=%r quoted=%r" % (e.selector, text, quoted))
    elif form == 1:
        hx.require(rl.unescape(target) == e.selector[4:], "C06:url-target-differs:%s" % pn, lambda: "selector=%r rendered=%r" % (e.selector, text))
    else:
        host = e.host if e.host is not None else "srv.example"
        prt = e.port if e.port is not None else SP
        pre = "gopher://%s:%d/" % (host, prt)
        wt = tok_of(typ + e.selector)
        hx.require(wt is not None and rl.unescape(target) == pre + wt, "C06:remote-target-differs:%s" % pn,
                   lambda: "entry=%r rendered=%r expected prefix %r" % ((e.selector, e.host, e.port), text, pre))
    return True


def body_walk(kind: int, n: int, absopt: int, hdr: bool, hasabs: int) -> bool:
    """writedir: one renderobjinfo call per entry, in list order, for every protocol; informational
    abstract lines appear exactly when the settings say so."""
    cfg = hx.DictConfig(True)
    cfg.set("pygopherd", "abstract_entries", ["always", "unsupported", "never"][absopt])
    cfg.set("pygopherd", "abstract_headers", hdr)
    w = hx.ListWriter()
    pr = rl.proto(kind, cfg, wfile=w)
    if kind in (2, 3):
        pr.iconmapping = {}
    if kind == 1:
        pr.handlemethod = "gopherplusdir"
    dent = rl.entry(cfg, "1", "dir", "/d", mimetype="application/gopher-menu", ea={"ABSTRACT": "dir abstract"})
    pr.entry = dent
    entries = []
    for i in range(n):
        ea = {"ABSTRACT": "abs %d" % i} if (hasabs >> i) & 1 else None
        entries.append(rl.entry(cfg, "0", "n%d" % i, "/d/e%d" % i, mimetype="text/plain", ea=ea))
    calls = []
    orig = pr.renderobjinfo

    def rec(e):
        calls.append((e.gettype(), e.getname(), e.getselector()))
        return orig(e)

    pr.renderobjinfo = rec
    pr.writedir(dent, entries)
    hx.reach()
    links = [c for c in calls if c[0] != "i"]
    infos = [c[1] for c in calls if c[0] == "i"]
    hx.require(links == [("0", "n%d" % i, "/d/e%d" % i) for i in range(n)], "C06:entries-not-rendered-once-in-order:%s" % dl.PROTO_NAMES[kind], lambda: repr(calls))
    doabs = absopt == 0 or (absopt == 1 and not pr.groksabstract())
    want = (["dir abstract"] if hdr else []) + (["abs %d" % i for i in range(n) if (hasabs >> i) & 1] if doabs else [])
    hx.require(infos == want, "C06:informational-lines-differ:%s" % dl.PROTO_NAMES[kind], lambda: "setting=%s/%s got %r expected %r" % (["always", "unsupported", "never"][absopt], hdr, infos, want))
    return True


def body_mime(kind: int, m: str, special: int) -> bool:
    cfg = hx.DictConfig(True)
    pr = rl.proto(kind, cfg)
    mt = [m, None, "application/gopher-menu", "text/plain"][special]
    fn = pr.adjustmimetype if kind in (2, 3) else pr.adjust_mimetype
    got = fn(mt)
    hx.reach()
    menu = {2: "text/html", 3: "text/vnd.wap.wml", 4: "text/gemini", 5: "text/gemini"}[kind]
    if mt is None:
        want = "text/vnd.wap.wml" if kind == 3 else "text/plain"
    elif mt == "application/gopher-menu":
        want = menu
    elif kind == 3 and mt == "text/plain":
        want = "text/vnd.wap.wml"
    else:
        want = mt
    hx.require(got == want, "C06:mime-adjustment:%s" % dl.PROTO_NAMES[kind], lambda: "%r -> %r expected %r" % (mt, got, want))
    return True


MTYPES = [None, "text/plain", "application/octet-stream", "image/gif", "text/html"]
ENCS = [None, "gzip", "bzip2"]


def body_mime_e2e(kind: int, mk: int, ek: int, emk: int) -> bool:
    """The MIME type each protocol's real handle() ADVERTISES for a document is the protocol's
    documented rendering of the entry's one MIME type -- whatever the entry's encoding and
    encoded-MIME-type fields say (those describe the stored form; every protocol serves the same
    bytes), so all protocols agree on the type of a selector."""
    from pygopherd.handlers import HandlerMultiplexer as HM
    from pygopherd.protocols import gopherp

    cfg = hx.DictConfig(True)
    hx.silence_logging()
    mt, enc, emt = MTYPES[mk], ENCS[ek], MTYPES[emk]

    class H:
        def __init__(self, sel):
            self.e = rl.entry(cfg, "0" if (mt or "").startswith("text") else "9", "n", sel, mimetype=mt, size=3)
            self.e.encoding = enc
            self.e.encodedmimetype = emt

        def getentry(self):
            return self.e

        def prepare(self):
            pass

        def isdir(self):
            return False

        def write(self, w):
            w.write(b"BODY")

    def getHandler(selector, searchrequest, protocol, config, handlerlist=None, vfs=None):
        return H(selector)

    saved = HM.getHandler
    HM.getHandler = getHandler
    w = hx.ListWriter()
    try:
        if kind == 6:
            p = gopherp.GopherPlusProtocol("/x.gz" + chr(9) + "!", hx.make_server(cfg), hx.make_rh(False), None, w, cfg)
            p.canhandlerequest()
        else:
            p = rl.proto(kind, cfg, selector="/x.gz", wfile=w)
        p.handle()
    finally:
        HM.getHandler = saved
    out = w.gettext()
    hx.reach()
    if kind in (2, 3):
        i = out.find("Content-Type: ")
        hx.require(i >= 0, "C06:no-content-type", lambda: repr(out[:200]))
        got = out[i + 14:out.find(chr(13), i)]
        hx.require("Content-Encoding" not in out[:out.find(chr(13) + chr(10) + chr(13) + chr(10))], "C06:content-encoding-declared-in-one-protocol-only:%s" % dl.PROTO_NAMES[kind], lambda: repr(out[:300]))
        want = (mt or "text/plain") if kind == 2 else ("text/vnd.wap.wml" if mt in (None, "text/plain") else mt)
    elif kind in (4, 5):
        pre = "20 " if kind == 4 else "2 "
        hx.require(out.startswith(pre), "C06:no-success-status", lambda: repr(out[:100]))
        got = out[len(pre):out.find(chr(13))]
        want = mt or "text/plain"
    else:
        if mt is None:
            hx.require("+VIEWS" not in out, "C06:views-without-type", lambda: repr(out[:300]))
            return True
        i = out.find("+VIEWS:" + chr(13) + chr(10) + " ")
        hx.require(i >= 0, "C06:no-views-block", lambda: repr(out[:300]))
        got = out[i + 10:out.find(":", i + 10)]
        want = mt
    hx.require(got == want, "C06:advertised-mime-type-differs:%s" % dl.PROTO_NAMES[kind],
               lambda: "entry type=%r encoding=%r encoded type=%r: %s advertises %r, expected %r" % (mt, enc, emt, dl.PROTO_NAMES[kind], got, want))
    return True


def body_slash(kind: int, u: str) -> bool:
    """A directory selector with and without a trailing slash reaches handler selection identically."""
    cfg = hx.DictConfig(True)
    hx.silence_logging()
    if u.endswith("/") or u == "":
        return True
    import urllib.parse

    saved = urllib.parse.unquote
    urllib.parse.unquote = lambda s, encoding="utf-8", errors="replace": s
    try:
        out = []
        if kind == 4:
            from pygopherd.protocols import gemini

            pre = "gemini://srv.example"
            gemini.urllib = hx.ns(parse=hx.ns(urlparse=lambda x: hx.ns(path=x[len(pre):], query=""), unquote=urllib.parse.unquote, quote=urllib.parse.quote, unquote_plus=urllib.parse.unquote_plus, urlsplit=urllib.parse.urlsplit))
        for path in ("/" + u, "/" + u + "/"):
            req, tls = rl.client_request(kind, ("/wap" + path) if kind == 3 else path)
            seen, pname = rl.follow(kind, req, tls, cfg)
            out.append(seen)
    finally:
        urllib.parse.unquote = saved
        if kind == 4:
            import urllib as _u

            gemini.urllib = _u
    hx.reach()
    hx.require(out[0] == out[1] and len(out[0]) == 1, "C06:trailing-slash-changes-selector:%s" % dl.PROTO_NAMES[kind], lambda: "%r vs %r" % (out[0], out[1]))
    return True


def body_search(kind: int, s: str, emptysel: bool = False) -> bool:
    """The search string submitted through each protocol's own mechanism reaches handler selection
    through one decoding step with the surrogateescape error handler (URL protocols: one
    percent-decoding of exactly the submitted query, not form-decoding of '+')."""
    import urllib.parse

    from pygopherd.protocols import gemini, http

    cfg = hx.DictConfig(True)
    hx.silence_logging()
    if s != s.strip() or s == "" or "\t" in s or "\r" in s or "\n" in s:
        return True
    if kind in (2, 3, 4) and " " in s:
        return True  # a client percent-encodes blanks in a URL
    if kind == 0 and (s.startswith("+") or s.startswith("$") or s == "!"):
        return True  # reserved by Gopher+: such a second field makes the line a Gopher+ request
    calls = []

    def unquote(x, encoding="utf-8", errors="replace"):
        calls.append(("unquote", x, errors))
        return "U(" + x + ")"

    def parse_qs(qs, *a, **kw):
        calls.append(("parse_qs", qs, kw.get("errors", "replace")))
        out = {}
        for part in qs.split("&"):
            k, _, v = part.partition("=")
            out.setdefault(k, []).append("U(" + v + ")")
        return out

    saved = (urllib.parse.unquote, urllib.parse.parse_qs)
    urllib.parse.unquote, urllib.parse.parse_qs = unquote, parse_qs
    body = b""
    try:
        if kind == 5:
            req, tls = "srv.example /d 3\r\n", False

            class R:
                def read(self, n):
                    calls.append(("read", n, None))
                    return hx.StrLine(s)

                def readline(self):
                    return hx.StrLine("")

            from pygopherd import GopherExceptions
            from pygopherd.handlers import HandlerMultiplexer as HM
            from pygopherd.protocols import spartan

            seen = []

            def gh(selector, searchrequest, protocol, config, handlerlist=None, vfs=None):
                seen.append((selector, searchrequest))
                raise GopherExceptions.FileNotFound(selector, "stub", protocol)

            p = spartan.SpartanProtocol(req, hx.make_server(cfg), hx.make_rh(False), R(), hx.ListWriter(), cfg)
            sv = HM.getHandler
            HM.getHandler = gh
            try:
                p.handle()
            finally:
                HM.getHandler = sv
        else:
            req, tls = rl.client_request(kind, "/wap/d" if kind == 3 else ("" if (emptysel and kind in (0, 1, 6)) else "/d"), s)
            if kind == 4:
                # urlparse realizes: contract stub returning the raw components of whatever URL is asked for
                state = {"path": "/GEMINI-QUERY/d" if emptysel else "/d", "query": s}
                gemini.urllib = hx.ns(parse=hx.ns(urlparse=lambda u: hx.ns(path=state["path"], query=state["query"]), unquote=unquote, quote=urllib.parse.quote, unquote_plus=urllib.parse.unquote_plus, urlsplit=urllib.parse.urlsplit))
            try:
                if kind == 4 and emptysel:
                    # the search item's own flow: /GEMINI-QUERY/d?s  ->  30 redirect  ->  follow it
                    w0 = hx.ListWriter()
                    p0 = dl.make_protocol(4, "/x", cfg, w0)
                    p0.handle()
                    red = w0.gettext()
                    hx.require(red.startswith("30 ") and red.endswith("\r\n"), "C06:gemini-search-redirect-missing", lambda: repr(red))
                    loc = red[3:-2]
                    hx.require(loc.endswith("?" + s), "C06:gemini-search-redirect-loses-query", lambda: repr(red))
                    state["path"], state["query"] = loc[: len(loc) - len(s) - 1], s
                    del calls[:]
                seen, pname = rl.follow(kind, req, tls, cfg)
            finally:
                if kind == 4:
                    import urllib as _u

                    gemini.urllib = _u
    finally:
        urllib.parse.unquote, urllib.parse.parse_qs = saved
    hx.reach()
    hx.require(len(seen) == 1, "C06:search-request-not-handled:%s" % dl.PROTO_NAMES[kind], lambda: repr(seen))
    if emptysel and kind in (0, 1, 6):
        hx.require(seen[0][0] == "/", "C06:empty-selector-search-misparsed:%s" % dl.PROTO_NAMES[kind], lambda: "request=%r reached handler selection as %r" % (req, seen[0]))
    got = seen[0][1]
    if kind in (0, 1, 6):
        want = s
    elif kind == 5:
        want = s  # StrLine.decode stands for bytes.decode(errors=surrogateescape)
    else:
        want = "U(" + s + ")"
        if kind == 4 and emptysel:
            hx.require(seen[0][0] == "/U(/d)" or seen[0][0] == "U(/d)", "C06:gemini-search-redirect-changes-selector", lambda: "after the redirect the selector reached handler selection as %r" % (seen[0][0],))
        dec = [c for c in calls if c[0] in ("unquote", "parse_qs") and (c[1] == s or c[1] == "searchrequest=" + s)]
        hx.require(len(dec) == 1, "C06:search-decoding-layers:%s" % dl.PROTO_NAMES[kind], lambda: "calls=%r" % (calls,))
        hx.require(dec[0][2] == "surrogateescape", "C06:search-decoder-error-handler:%s" % dl.PROTO_NAMES[kind], lambda: "calls=%r" % (calls,))
    hx.require(got == want, "C06:search-string-differs:%s" % dl.PROTO_NAMES[kind], lambda: "submitted %r reached the handler as %r (expected %r); calls=%r" % (s, got, want, calls))
    return True


def obligations(tier, seed):
    n = 1 if tier == "quick" else 2
    obs = []
    for kind in KINDS:
        for form in range(len(FORMS)):
            obs.append(Ob(id="C06.2-agree[%s,%s]" % (dl.PROTO_NAMES[kind], FORMS[form]), body="harness.C06:body_agree", sig="kind: int, form: int, t: int, name: str, tail: str, port: int",
                          pre=["kind == %d" % kind, "form == %d" % form, "0 <= t < %d" % len(TYPES), "len(name) <= %d" % n, "all(c in 'n <&' + chr(34) for c in name)", "name == name.strip()",
                               "len(tail) <= %d" % n, "all(c in 'a ?%' for c in tail)", "port == 70 or port == 7070"], timeout=300 if tier == "quick" else 1500,
                          desc="%s rendering of a %s entry, parsed back by an independent parser of that format: display name, item kind and target equal the entry's (so all protocols agree pairwise)"
                               % (dl.PROTO_NAMES[kind], FORMS[form]),
                          bounds="6 item types, name |n| <= %d over {n SPACE < & \"}, selector tail <= %d over {a SPACE ? %%}, port 70 or 7070 (symbolic)" % (n, n),
                          functions=["protocols.*.renderobjinfo/getrenderstr", "GopherEntry.geturl"]))
    for kind in (0, 1, 2, 3, 4, 5):
        obs.append(Ob(id="C06.1-walk[%s]" % dl.PROTO_NAMES[kind], body="harness.C06:body_walk", sig="kind: int, n: int, absopt: int, hdr: bool, hasabs: int",
                      pre=["kind == %d" % kind, "0 <= n <= 3", "0 <= absopt <= 2", "0 <= hasabs <= 7"], timeout=300,
                      desc="writedir for %s: each entry rendered once in list order; abstract lines exactly as abstract_entries/abstract_headers prescribe" % dl.PROTO_NAMES[kind],
                      bounds="0..3 entries, 3 abstract_entries settings, abstract_headers on/off, abstract presence per entry (symbolic)", functions=["protocols.base.BaseGopherProtocol.writedir/renderabstract"]))
    for kind in (2, 3, 4, 5):
        obs.append(Ob(id="C06.3-mime[%s]" % dl.PROTO_NAMES[kind], body="harness.C06:body_mime", sig="kind: int, m: str, special: int",
                      pre=["kind == %d" % kind, "0 <= special <= 3", "len(m) <= 4"], timeout=120,
                      desc="MIME adjustment of %s: menus map to the protocol's listing type, None to the default, everything else unchanged" % dl.PROTO_NAMES[kind],
                      bounds="type strings |m| <= 4 + the special constants", functions=["adjustmimetype/adjust_mimetype"]))
    for kind in (0, 6, 2, 3, 4, 5):
        if kind != 0:
          obs.append(Ob(id="C06.3b-mime-advertised[%s]" % dl.PROTO_NAMES[kind], body="harness.C06:body_mime_e2e", sig="kind: int, mk: int, ek: int, emk: int",
                      pre=["kind == %d" % kind, "0 <= mk < %d" % len(MTYPES), "0 <= ek < %d" % len(ENCS), "0 <= emk < %d" % len(MTYPES)], timeout=200,
                      desc="%s handle() for a document whose entry has symbolic MIME type, encoding and encoded-MIME-type: the advertised type is this protocol's rendering of the entry's MIME type alone (so every protocol names the same type for the selector)" % dl.PROTO_NAMES[kind],
                      bounds="5 MIME types x 3 encodings x 5 encoded types (symbolic indices)", functions=["protocols.http.HTTPProtocol.handle", "protocols.gemini/spartan handle", "GopherPlusProtocol.getviewsblock"]))
        obs.append(Ob(id="C06.4-trailing-slash[%s]" % dl.PROTO_NAMES[kind], body="harness.C06:body_slash", sig="kind: int, u: str",
                      pre=["kind == %d" % kind, "1 <= len(u) <= %d" % (2 if tier == "quick" else 3), "all(c in 'a/.' for c in u)"], timeout=300,
                      desc="%s: /u and /u/ reach handler selection as the same selector" % dl.PROTO_NAMES[kind], bounds="|u| <= %d over {a / .}" % (2 if tier == "quick" else 3),
                      functions=["protocols.*.handle", "slashnormalize"]))
        obs.append(Ob(id="C06.5-search[%s]" % dl.PROTO_NAMES[kind], body="harness.C06:body_search", sig="kind: int, s: str, emptysel: bool",
                      pre=["kind == %d" % kind, "1 <= len(s) <= %d" % (2 if tier == "quick" else 3), "all(c in 'a+% ' + chr(0xdcff) for c in s)"], timeout=300,
                      desc="%s: the submitted search string reaches handler selection through exactly one decoding with errors=surrogateescape (no '+'-to-blank form decoding for URL queries)" % dl.PROTO_NAMES[kind],
                      bounds="|s| <= %d over {a + %% SPACE U+DCFF}" % (2 if tier == "quick" else 3), functions=["protocols.*.handle/canhandlerequest"]))
    return obs
