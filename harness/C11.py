"""C11 -- a cache file cut off at any byte is harmless."""
from __future__ import annotations

import vk.hx as hx
from harness import dirlib as dl
from vk import memvfs as mv
from vk.driver import Ob

META = {
    "level": "other",
    "technique": "bounded symbolic execution (CrossHair/z3) of the real cache-loading control flow with a pickle stub whose outcome (payload or any documented unpickling failure) is symbolic; the stub contract is validated against the real pickle on every prefix of real cache files",
    "claim": "pickle.load is C code and is not encoded; what decides the property is the control flow around it. The real prepare/getdirlist/handle() "
    "are executed over an in-memory VFS holding a fresh cache file while PickleStub.load raises a symbolic one of the exception classes pickle "
    "documents/produces for damaged input; on every path the reply equals the reply without a cache file, for both directory handlers and all "
    "protocol forms. A concrete exhaustive sweep over every prefix (and the zero-filled image) of real cache files shows that the real "
    "pickle.load only ever produces outcomes inside the stub's outcome set, and replays the real request on the real truncated files."
    " The writer is shown to truncate first and write through one handle (so a killed writer leaves a prefix), and a file cut after any number of intact pickled objects is never accepted as a listing.",
    "trusted": "CrossHair/z3; PickleStub outcome set (validated per run against the real pickle on all prefixes of real cache files).",
    "explanation": "Symbolic failure outcome of the unpickling step through the real handlers + exhaustive concrete validation of that outcome set.",
    "assumptions": [
        "a damaged cache makes pickle.load raise one of: EOFError, UnpicklingError, AttributeError, ImportError, IndexError, KeyError, ValueError, TypeError, MemoryError, OverflowError, UnicodeDecodeError (validated, C11.3)",
        "a reader racing a writer can only observe a prefix of the final bytes, or zeros (writers of different listings interleaving are outside the claim)",
    ],
}

import pickle as _pickle

EXC = [
    EOFError("Ran out of input"),
    _pickle.UnpicklingError("pickle data was truncated"),
    AttributeError("Can't get attribute"),
    ImportError("No module named x"),
    IndexError("pop from empty list"),
    KeyError(7),
    ValueError("unsupported pickle protocol"),
    TypeError("bad type"),
    MemoryError(),
    OverflowError("too large"),
    UnicodeDecodeError("utf-8", b"\xff", 0, 1, "invalid start byte"),
]
EXC_NAMES = [type(e).__name__ for e in EXC]

LINKS = b"Name=Zed first\nPath=./n.txt\nNumb=1\n\nName=Remote thing\nType=1\nPath=/x\nHost=h.example\nPort=70\n\nName=Hidden\nType=X\nPath=./gone.txt\n"


def _nodes():
    names = [".Links", "a.txt", "gone.txt", "n.txt", "s"]
    nodes = {"/": mv.Dir(["d"]), "/d": mv.Dir(names, mtime=10), "/d/.Links": mv.File(LINKS, mtime=10),
             "/d/s": mv.Dir([], mtime=10)}
    for n in ("a.txt", "gone.txt", "n.txt"):
        nodes["/d/" + n] = mv.File(b"data\n", mtime=10)
    return nodes


def _request(p, cfg):
    w = hx.ListWriter()
    proto = dl.make_protocol(p, "/d", cfg, w)
    proto.handle()
    return w.getvalue()


def _handlers(umn):
    return None if umn else "[url.HTMLURLHandler, gophermap.BuckGophermapHandler, dir.DirHandler, html.HTMLFileTitleHandler, file.FileHandler]"


def _cfg(umn, T):
    over = {("handlers.dir.DirHandler", "cachetime"): T}
    if not umn:
        over[("handlers.HandlerMultiplexer", "handlers")] = _handlers(False)
    return dl.config(over)


def _fresh(p, umn):
    cfg = _cfg(umn, 0)
    vfs = mv.MemVFS(cfg, _nodes())
    dl.install_dir_env(vfs, 50, dl.PickleStub())
    try:
        return _request(p, cfg)
    finally:
        dl.restore_dir_env()


REF = {}
for _umn in (False, True):
    for _p in range(7):
        REF[(_p, _umn)] = _fresh(_p, _umn)


def body_damaged(p: int, umn: bool, k: int, age: int, T: int, s: int = -1) -> bool:
    """A fresh-enough cache file exists but unpickling fails with exception class k.
    s = -1: the file is damaged from the start (pre-made file, nothing intact).
    s >= 0: the real savecache writes the file first; then it is cut so that only the first s pickled
    objects it wrote are intact and reading on raises exception k (with one object per file -- the
    shipped format -- only s = 0 is possible; a format of several objects can be cut between them)."""
    cfg = _cfg(umn, T)
    nodes = _nodes()
    cachesel = "/d/" + cfg.get("handlers.dir.DirHandler", "cachefile")
    if s < 0:
        nodes[cachesel] = mv.File(b"PICK", mtime=1000)
    vfs = mv.MemVFS(cfg, nodes)
    ps = dl.PickleStub()
    dirmod = dl.install_dir_env(vfs, 1000, ps)
    vfs.on_write = lambda sel, chunks: vfs.nodes.__setitem__(sel, mv.File(b"PICKLE", mtime=dirmod.time.t))
    try:
        try:
            if s >= 0:
                r0 = _request(p, cfg)  # writes the cache file through the real savecache
                hx.require(r0 == REF[(p, umn)], "C11:reply-differs-from-uncached-listing", lambda: "first request %s umn=%s" % (dl.PROTO_NAMES[p], umn))
                nobj = len(ps.store.get(cachesel, []))
                if s >= nobj:
                    return True  # nothing left to cut
                ps.survive = s
                hx.reset_lazies()
            ps.load_exc = EXC[k]
            dirmod.time.t = 1000 + age
            r = _request(p, cfg)
        except hx.Violation:
            raise
        except Exception as e:
            raise hx.Violation("C11:exception-escaped:%s" % type(e).__name__, "%s umn=%s injected=%s" % (dl.PROTO_NAMES[p], umn, EXC_NAMES[k]))
        # and the request after that one (the cache must not stay poisoned)
        hx.reset_lazies()
        ps.load_exc = None
        ps.survive = None
        r2 = _request(p, cfg)
    finally:
        dl.restore_dir_env()
    if age < T:
        hx.reach()
    hx.require(r == REF[(p, umn)], "C11:reply-differs-from-uncached-listing",
               lambda: "%s umn=%s injected=%s age=%d T=%d intact objects=%d: %r" % (dl.PROTO_NAMES[p], umn, EXC_NAMES[k], age, T, s, r[:200]))
    hx.require(r2 == REF[(p, umn)], "C11:next-reply-differs-from-uncached-listing",
               lambda: "%s umn=%s injected=%s: %r" % (dl.PROTO_NAMES[p], umn, EXC_NAMES[k], r2[:200]))
    return True


def body_writer(p: int, umn: bool, had_old: bool) -> bool:
    """How the real savecache writes: the property's damage model (a killed writer leaves a PREFIX
    of the new bytes) holds only if the writer truncates the file when it opens it and writes the
    payload through that one handle.  Checked on the access log of the in-memory VFS."""
    cfg = _cfg(umn, 0)
    nodes = _nodes()
    cachesel = "/d/" + cfg.get("handlers.dir.DirHandler", "cachefile")
    if had_old:
        nodes[cachesel] = mv.File(b"OLD", mtime=5)
    vfs = mv.MemVFS(cfg, nodes)
    ps = dl.PickleStub()
    dl.install_dir_env(vfs, 1000, ps)
    try:
        _request(p, cfg)
    finally:
        dl.restore_dir_env()
    hx.reach()
    opens = [op for (op, sel) in vfs.log if sel == cachesel and op.startswith("open:") and op != "open:rb"]
    hx.require(opens == ["open:wb"], "C11:cache-writer-does-not-truncate-first", lambda: "cache file opened as %r (old file present: %s)" % (opens, had_old))
    hx.require(len(ps.dumps) >= 1 and all(d == cachesel for d in ps.dumps), "C11:cache-payload-not-written-through-that-handle", lambda: "dumps=%r" % (ps.dumps,))
    hx.require(all(f.closed for f in vfs.opened), "C11:cache-file-left-open", "")
    return True


# ------------------------------------------------------------------ stub contract validation + real replay


def fn_prefix_sweep(dirs=("/pygopherd", "/gopherplus", "/"), full_e2e=("/pygopherd",)):
    """Every prefix 0..size-1 and the zero-filled image of real cache files written by the real
    savecache go through the real pickle.load: each outcome must be an exception inside the stub's
    outcome set (never a 'successful' load).  For the directories in full_e2e the real request is
    replayed on the real truncated file and must equal the uncached listing."""
    import io
    import os
    import pickle
    import time as _t

    from pygopherd import logger

    t0 = _t.time()
    logger.log = lambda m: None
    root = hx.scratch_testdata()
    allowed = set(EXC_NAMES)
    seen = {}
    nload = ne2e = 0
    samples = []
    loads_ok = []

    def ask(sel, cachetime):
        hx.reset_lazies()
        cfg = hx.real_config()
        cfg.set("handlers.dir.DirHandler", "cachetime", cachetime)
        w = hx.ListWriter()
        h = hx.make_request_handler(hx.BytesReader(sel.encode() + b"\r\n"), w, cfg)
        h.handle()
        return w.getvalue()

    for sel in dirs:
        cpath = os.path.join(root, sel.strip("/"), ".cache.pygopherd.dir") if sel != "/" else os.path.join(root, ".cache.pygopherd.dir")
        if os.path.exists(cpath):
            os.unlink(cpath)
        ref = ask(sel, 0)
        # lifetime 0 still writes the cache (savecache is unconditional)
        image = open(cpath, "rb").read()
        ok_obj = pickle.loads(image)
        if not isinstance(ok_obj, (list, tuple)):
            ok_obj = [ok_obj]
        variants = [(i, image[:i]) for i in range(len(image))] + [("zeros", b"\0" * len(image))]
        for tag, data in variants:
            nload += 1
            try:
                obj = pickle.load(io.BytesIO(data))
            except Exception as e:
                name = type(e).__name__
                seen[name] = seen.get(name, 0) + 1
                if name not in allowed:
                    return {"status": "inconclusive", "detail": "stub contract too narrow: real pickle.load raised %s on %s[%s]" % (name, sel, tag)}
            else:
                loads_ok.append("a damaged cache (%s[%s]) loaded successfully as %r: the stub's outcome set misses this case" % (sel, tag, type(obj)))
        samples.append({"dir": sel, "cache_bytes": len(image), "entries": len(ok_obj), "variants": len(variants)})
        if sel in full_e2e:
            for tag, data in variants:
                with open(cpath, "wb") as f:
                    f.write(data)
                future = _t.time() + 5
                os.utime(cpath, (future, future))
                got = ask(sel, 10 ** 6)
                ne2e += 1
                if got != ref:
                    os.unlink(cpath)
                    return {"status": "violation", "detail": "real request on %s with cache cut at %s: reply differs (%r...)" % (sel, tag, got[:80]),
                            "violations": [{"body": "harness.C11:replay_truncated", "kwargs": {"sel": sel, "cut": tag if isinstance(tag, int) else -1},
                                            "sig": "C11:real-truncated-cache:reply-differs"}]}
            os.unlink(cpath)
    if loads_ok:
        return {"status": "inconclusive", "detail": loads_ok[0]}
    return {"status": "discharged", "queries": nload + ne2e, "solver_s": 0.0, "twin": "n/a",
            "detail": "%d damaged images through the real pickle.load: outcomes %r, all inside the stub's set, none loads successfully; %d real requests on real damaged files equal the uncached reply"
                      % (nload, seen, ne2e),
            "samples": samples, "functions": ["pickle.load (stdlib, concrete)", "GopherRequestHandler.handle on real truncated cache files"],
            "notes": "concrete exhaustive validation of the stub contract (translation validation), not a solver verdict"}


def replay_truncated(sel: str, cut: int) -> bool:
    import os
    import time as _t

    from pygopherd import logger

    logger.log = lambda m: None
    root = hx.scratch_testdata()
    cpath = os.path.join(root, sel.strip("/"), ".cache.pygopherd.dir")

    def ask(cachetime):
        hx.reset_lazies()
        cfg = hx.real_config()
        cfg.set("handlers.dir.DirHandler", "cachetime", cachetime)
        w = hx.ListWriter()
        hx.make_request_handler(hx.BytesReader(sel.encode() + b"\r\n"), w, cfg).handle()
        return w.getvalue()

    if os.path.exists(cpath):
        os.unlink(cpath)
    ref = ask(0)
    image = open(cpath, "rb").read()
    data = image[:cut] if cut >= 0 else b"\0" * len(image)
    with open(cpath, "wb") as f:
        f.write(data)
    fut = _t.time() + 5
    os.utime(cpath, (fut, fut))
    got = ask(10 ** 6)
    hx.require(got == ref, "C11:real-truncated-cache:reply-differs", lambda: "cut=%d: %r" % (cut, got[:120]))
    return True


def obligations(tier, seed):
    obs = []
    for umn in (True, False):
        for p in range(7):
            obs.append(Ob(
                id="C11.1-damaged[%s,%s]" % ("UMN" if umn else "Dir", dl.PROTO_NAMES[p]),
                body="harness.C11:body_damaged",
                sig="p: int, umn: bool, k: int, age: int, T: int, s: int",
                pre=["p == %d" % p, "umn == %s" % umn, "0 <= k < %d" % len(EXC), "0 <= age", "0 <= T", "-1 <= s <= 3"],
                desc="%s via %s: a cache file of symbolic age exists (pre-made, or written by the real savecache and then cut after a symbolic number of intact pickled objects) and unpickling raises a symbolic one of %r; the reply (and the next one) equals the uncached listing"
                     % ("UMNDirHandler" if umn else "DirHandler", dl.PROTO_NAMES[p], EXC_NAMES),
                bounds="%d exception classes (symbolic), unbounded integer age and lifetime (symbolic); directory with link file overrides, an added link and a hidden entry" % len(EXC),
                timeout=240,
                functions=["handlers.dir.DirHandler.loadcache/prepare/getdirlist/savecache", "handlers.UMN.UMNDirHandler.prepare", "protocols.*.handle"],
            ))
    for umn in (True, False):
        obs.append(Ob(id="C11.4-writer-protocol[%s]" % ("UMN" if umn else "Dir"), body="harness.C11:body_writer", sig="p: int, umn: bool, had_old: bool",
                      pre=["0 <= p <= 6", "umn == %s" % umn], timeout=240,
                      desc="the real savecache opens the cache file once, truncating (mode wb), writes the payload through that handle and closes it - which is what makes 'a killed writer leaves a prefix' the right damage model; with and without an older cache file present",
                      bounds="7 protocol forms x old cache present/absent (symbolic)", functions=["handlers.dir.DirHandler.savecache"]))
    obs.append(Ob(
        id="C11.3-prefix-sweep",
        body="harness.C11:fn_prefix_sweep",
        kind="fn", engine="TV", twin=False,
        kwargs={} if tier == "thorough" else {"dirs": ["/pygopherd", "/gopherplus"], "full_e2e": ["/pygopherd"]},
        desc="every prefix and the zero-filled image of real cache files through the real pickle.load (stub contract) and through the real request path",
        bounds="cache files of %s (all prefixes, exhaustive)" % ("3 directories" if tier == "thorough" else "2 directories"),
        timeout=900,
    ))
    return obs
