"""C08 -- UMN link files, .cap overrides and abstracts have their documented effect."""
from __future__ import annotations

import vk.hx as hx
from harness import C07 as c07
from harness import dirlib as dl
from spec import umn as ref
from vk import memvfs as mv
from vk.driver import Ob

META = {
    "level": "other",
    "technique": "bounded symbolic execution (CrossHair/z3) of the real UMN link-file reader, merge and sort code over an in-memory VFS, differentially against an independent reference reader written from the manual",
    "claim": "For each keyword the real getLinkItem is run on a block whose value is symbolic; for blocks made of a symbolic subset and order of the "
    "documented lines the parsed entry equals the reference reader's; .cap and Path=./ overrides with symbolic field subsets change exactly "
    "the fields they set (Type=X/- hides), added links are appended, sidecar abstracts are attached, and the final order is the documented one; "
    "the comparator equals the documented key for all integers.",
    "trusted": "CrossHair/z3; MemVFS; the reference reader spec/umn.py (written from doc/pygopherd.txt).",
    "explanation": "Differential symbolic execution: real link-file code vs. reference reader on symbolic blocks.",
    "assumptions": [
        "well-formed link files: Port= values are '+' or decimal digits; the multi-block parser loop over long text with arbitrary interleaving of comments is outside the bound (one to three blocks of <= 7 lines)",
        "values are bounded (|v| <= 3 symbolic, or concrete values with a symbolic subset/order of lines); Numb=/Port= values range over digits, '-', '+', 'x'",
        "os.path.normpath (C code in CPython 3.12) is replaced by CPython 3.11's pure-Python implementation, validated against the real function on all strings of length <= 5 over {. / a}",
    ],
}

KW = ["Name=", "Type=", "Path=", "Host=", "Port=", "Numb=", "Abstract=", "Path=./", "Path=~/", "Admin=", "URL=", "TTL=", "Path=URL:", "Path=/"]


def _proto(cfg):
    return hx.ns(server=hx.make_server(cfg), requesthandler=hx.make_rh(False), config=cfg)


def _real_parse(lines, base, cap=None):
    from pygopherd.handlers import UMN

    cfg = dl.config()
    sel = base or "/"
    nodes = {"/": mv.Dir(["d"]), "/d": mv.Dir([".Links"]), (base + "/.Links"): mv.File(lines)}
    vfs = mv.MemVFS(cfg, nodes)
    dl.install_dir_env(vfs, 5000, dl.PickleStub())
    hx.install_py_normpath()
    try:
        h = UMN.UMNDirHandler(sel, "", _proto(cfg), cfg, vfs.stat(sel), vfs)
        h.selectorbase = base
        return h.processLinkFile(base + "/.Links", cap)
    finally:
        dl.restore_dir_env()


def _entry_tuple(e):
    return (e.type, e.name, e.selector, e.host, e.port, e.num, e.getea("ABSTRACT"), bool(e.getneedsmerge()))


def body_keyword(kw: int, v: str, root: bool, pathfirst: bool) -> bool:
    """One symbolic `keyword + v` line together with a concrete Path line (for the Path keywords
    the symbolic line is the Path line, together with a concrete Name line)."""
    base = "" if root else "/d"
    sym = KW[kw] + v + "\n"
    other = "Name=Nm\n" if KW[kw].startswith("Path=") else "Path=/x/y\n"
    lines = [other, sym] if pathfirst else [sym, other]
    if KW[kw] == "Port=" and not (v == "+" or (len(v) > 0 and all(c in "0123456789" for c in v))):
        return True  # ill-formed Port value: outside the property's quantifier
    if v != v.strip() or "\n" in v or "\r" in v:
        return True  # the reader strips lines; blanks at the ends are not part of the value
    if KW[kw] == "Type=" and len(v) == 0:
        return True  # a Type line must carry a type character
    if KW[kw] == "Abstract=" and v.endswith("\\"):
        return True  # continuation: covered by the concrete multi-line obligation
    try:
        got = _real_parse(lines, base)
    except Exception as e:
        raise hx.Violation("C08:link-reader-raises:%s" % type(e).__name__, "lines=%r: %r" % (lines, e))
    hx.reach()
    want = ref.parse_block([l.rstrip("\n") for l in lines], base)
    hx.require(len(got) == (1 if want is not None else 0), "C08:block-count", lambda: "lines=%r got %d entries" % (lines, len(got)))
    if want is not None:
        hx.require(_entry_tuple(got[0]) == want.tup(), "C08:link-field-differs:%s" % KW[kw].rstrip("="),
                   lambda: "lines=%r real=%r documented=%r" % (lines, _entry_tuple(got[0]), want.tup()))
    return True


BLOCK_LINES = ["Name=Cheese Ball Recipes", "Numb=3", "Type=1", "Port=150", "Host=zippy.micro.umn.edu", "Abstract=first\\", "second line"]
PATHS = ["Path=1/Moo/Cheesy", "Path=./fred", "Path=/abs/olute", "Path=URL:http://h/x", "Path=./dir/", "Path=rel/../x", "Path=~/t"]


def body_block(mask: int, rot: int, pidx: int, ppos: int, hostplus: bool, root: bool, second: bool) -> bool:
    """A block made of a symbolic subset (mask) of the documented lines in a symbolic rotation, the
    Path line at a symbolic position; optionally followed by a second block."""
    base = "" if root else "/d"
    chosen = []
    for i in range(5):
        if mask & (1 << i):
            chosen.append(BLOCK_LINES[i])
    if hostplus:
        chosen = [("Host=+" if c.startswith("Host=") else "Port=+" if c.startswith("Port=") else c) for c in chosen]
    if chosen:
        r = rot % len(chosen)
        chosen = chosen[r:] + chosen[:r]
    if mask & 32:
        chosen += [BLOCK_LINES[5], BLOCK_LINES[6]]  # abstract with one continuation line
    pp = min(ppos, len(chosen))
    if mask & 32 and pp == len(chosen) - 1:
        pp = len(chosen)  # never split the continuation
    chosen.insert(pp, PATHS[pidx])
    lines = ["# a comment before the block\n"] + [c + "\n" for c in chosen]
    blocks = [chosen]
    if second:
        lines += ["\n", "Name=Second\n", "Path=/second\n"]
        blocks.append(["Name=Second", "Path=/second"])
    try:
        got = _real_parse(lines, base)
    except Exception as e:
        raise hx.Violation("C08:link-reader-raises:%s" % type(e).__name__, "lines=%r: %r" % (lines, e))
    hx.reach()
    want = [ref.parse_block(b, base) for b in blocks]
    want = [w for w in want if w is not None]
    hx.require([_entry_tuple(e) for e in got] == [w.tup() for w in want], "C08:link-block-differs",
               lambda: "lines=%r real=%r documented=%r" % (lines, [_entry_tuple(e) for e in got], [w.tup() for w in want]))
    return True


# ------------------------------------------------------------------ overrides: .cap, Path=./, Type=X, added links, sidecars, order

TYPES = [None, "1", "X", "-"]


def _mkblock(name, typ, numb, abstract, hostport, path=None):
    l = []
    if path is not None:
        l.append("Path=" + path)
    if name:
        l.append("Name=" + name)
    if typ is not None:
        l.append("Type=" + typ)
    if numb is not None:
        l.append("Numb=%d" % numb)
    if abstract:
        l.append("Abstract=" + abstract)
    if hostport:
        l.append("Host=other.example")
        l.append("Port=7070")
    return l


def body_override(cn: bool, ct: int, cnum: bool, cab: bool, ln: bool, lt: int, lnum: bool, lab: bool, lhp: bool, sidecar: bool, addlink: bool, uselink: bool = True, captail: int = 0, addpath: int = 0) -> bool:
    from pygopherd.handlers import UMN

    cfg = dl.config({("handlers.UMN.UMNDirHandler", "extstrip"): "none"})
    capb = _mkblock("Cap name" if cn else None, TYPES[ct], -3 if cnum else None, "cap abstract" if cab else None, False)
    lnkb = _mkblock("Link name" if ln else None, TYPES[lt], -2 if lnum else None, "link abstract" if lab else None, lhp, path="./a.txt")
    links = [l + "\n" for l in lnkb]
    # a block whose Path does not start with ./ ADDS an entry -- also when its path happens to name an existing file of this directory
    added = ["Name=Added", "Type=1", "Path=" + ["/added", "b.txt", "/d/b.txt"][addpath], "Host=+", "Port=+", "Numb=1"]
    if addlink:
        links += ["\n"] + [l + "\n" for l in added]
    if not uselink:
        addlink = False
    names = ([".Links"] if uselink else []) + ["a.txt", "b.txt"] + ([".cap"] if capb else []) + (["a.txt.abstract"] if sidecar else [])
    nodes = {"/": mv.Dir(["d"]), "/d": mv.Dir(names), "/d/a.txt": mv.File(b"a\n"), "/d/b.txt": mv.File(b"b\n")}
    if uselink:
        nodes["/d/.Links"] = mv.File(links)
    if capb:
        nodes["/d/.cap"] = mv.Dir(["a.txt"])
        # a .cap file may end with a blank line, or with a blank line and a comment: still one block
        nodes["/d/.cap/a.txt"] = mv.File([l + "\n" for l in capb] + [[], ["\n"], ["\n", "# edited by hand\n"]][captail])
    if sidecar:
        nodes["/d/a.txt.abstract"] = mv.File(b"side line 1  \nside line 2\n")
    vfs = mv.MemVFS(cfg, nodes)
    dl.install_dir_env(vfs, 5000, dl.PickleStub())
    try:
        h = UMN.UMNDirHandler("/d", "", _proto(cfg), cfg, vfs.stat("/d"), vfs)
        try:
            h.prepare()
            got = [(e.type, e.name, e.selector, e.host, e.port, e.num or 0, e.getea("ABSTRACT")) for e in h.getdirlist()]
        except Exception as e:
            raise hx.Violation("C08:listing-raises:%s" % type(e).__name__, repr(e))
    finally:
        dl.restore_dir_env()
    hx.reach()
    # documented effect
    a = {"type": "0", "name": "a.txt", "selector": "/d/a.txt", "host": None, "port": None, "num": None, "abstract": "side line 1\nside line 2" if sidecar else None}
    b = {"type": "0", "name": "b.txt", "selector": "/d/b.txt", "host": None, "port": None, "num": None, "abstract": None}
    entries = [b]
    hidden = False
    if capb:
        cl = ref.parse_block(capb, "/d", cap_selector="/d/a.txt")
        if cl.type in ("X", "-"):
            hidden = True
        else:
            a = ref.merge(a, cl)
    if not uselink:
        pass
    elif not hidden:
        ll = ref.parse_block(lnkb, "/d")
        if ll.type in ("X", "-"):
            hidden = True
        else:
            a = ref.merge(a, ll)
    else:
        # the file entry is gone: a Path=./ block that finds nothing to override is added as a link of its own
        ll = ref.parse_block(lnkb, "/d")
        if ll.type not in ("X", "-"):  # a block that only hides, and finds nothing to hide, adds nothing
            e = {"type": ll.type, "name": ll.name, "selector": ll.selector, "host": ll.host, "port": ll.port, "num": ll.num, "abstract": ll.abstract}
            entries.append(e)
    if not hidden:
        entries.append(a)
    if addlink:
        al = ref.parse_block(added, "/d")
        entries.append({"type": al.type, "name": al.name, "selector": al.selector, "host": al.host, "port": al.port, "num": al.num, "abstract": al.abstract})
    named = [e for e in entries if e["name"] is not None]
    unnamed = [e for e in entries if e["name"] is None]
    named.sort(key=ref.sort_key)
    want = [(e["type"], e["name"], e["selector"], e["host"], e["port"], e["num"] or 0, e["abstract"]) for e in named + unnamed]
    hx.require(got == want, "C08:override-effect-differs",
               lambda: "cap=%r link=%r sidecar=%s addlink=%s: real=%r documented=%r" % (capb, lnkb, sidecar, addlink, got, want))
    return True


# ------------------------------------------------------------------ extension stripping


def body_extstrip(mode: int) -> bool:
    import pygopherd.fileext
    from pygopherd.handlers import UMN

    m = ["none", "nonencoded", "full"][mode]
    cfg = dl.config({("handlers.UMN.UMNDirHandler", "extstrip"): m})
    names = ["Welcome.txt", "pygopherd.tar.gz", "noext", "page.html", "x.unknownext"]
    nodes = {"/": mv.Dir(["d"]), "/d": mv.Dir(names)}
    for n in names:
        nodes["/d/" + n] = mv.File(b"<html><head></head></html>\n" if n.endswith("html") else b"x\n")
    vfs = mv.MemVFS(cfg, nodes)
    dl.install_dir_env(vfs, 5000, dl.PickleStub())
    if not pygopherd.fileext.typemap:
        pygopherd.fileext.init()
    try:
        h = UMN.UMNDirHandler("/d", "", _proto(cfg), cfg, vfs.stat("/d"), vfs)
        h.prepare()
        got = {e.selector.rsplit("/", 1)[1]: e.name for e in h.getdirlist()}
    finally:
        dl.restore_dir_env()
    hx.reach()
    want = {n: n for n in names}
    if m in ("nonencoded", "full"):
        want["Welcome.txt"] = "Welcome"
        want["page.html"] = "page"
    if m == "full":
        want["pygopherd.tar.gz"] = "pygopherd"
    hx.require(got == want, "C08:extstrip-mode-%s" % m, lambda: "real=%r documented=%r" % (got, want))
    return True


def obligations(tier, seed):
    obs = [
        Ob(id="C08.1-order", body="harness.C07:body_entrycmp", sig="n1: int, n2: int, n3: int, s1: str, s2: str, s3: str",
           pre=["len(s1) <= 2", "len(s2) <= 2", "len(s3) <= 2"], timeout=180,
           desc="entrycmp == documented order: numbered entries first ascending, then unnumbered by title, then negative ones; a total preorder",
           bounds="unbounded integers, titles |s| <= 2", functions=["handlers.UMN.UMNDirHandler.entrycmp"]),
    ]
    vmax = 2 if tier == "quick" else 3
    for ki, k in enumerate(KW):
        obs.append(Ob(id="C08.5-keyword[%s]" % k, body="harness.C08:body_keyword", sig="kw: int, v: str, root: bool, pathfirst: bool",
                      pre=["kw == %d" % ki, "len(v) <= %d" % vmax] + (["all(c in '0123456789-+x' for c in v)"] if k in ("Numb=", "Port=") else ["all(c in './a~' + chr(92) for c in v)"] if k == "Path=" else []), timeout=240 if tier == "quick" else 900,
                      desc="a block `%s<symbolic value>` + a concrete companion line parses to the documented entry (reference reader), in the root and in a sub-directory, either line order" % k,
                      bounds="|v| <= %d (all characters)" % vmax, functions=["handlers.UMN.UMNDirHandler.getLinkItem/processLinkFile", "LinkEntry"]))
    for pi in range(len(PATHS)):
        obs.append(Ob(id="C08.5b-block[%s]" % PATHS[pi], body="harness.C08:body_block", sig="mask: int, rot: int, pidx: int, ppos: int, hostplus: bool, root: bool, second: bool",
                      pre=["pidx == %d" % pi, "0 <= mask <= 63", "0 <= rot <= 4", "0 <= ppos <= 7"] + (["second == False", "rot == 0", "root == False", "ppos == 0 or ppos == 7"] if tier == "quick" else []),
                      timeout=300 if tier == "quick" else 1800,
                      desc="block = symbolic subset of {Name, Numb, Type, Port, Host, Abstract with continuation} in a symbolic rotation with `%s` at a symbolic position "
                           "(optionally followed by a second block, after a comment line): parsed entries == reference reader" % PATHS[pi],
                      bounds="64 subsets x rotations x Path position x Host/Port '+' (symbolic)", functions=["handlers.UMN.UMNDirHandler.getLinkItem"]))
    for ct in range(4):
        for lt in range(4):
            obs.append(Ob(id="C08.3-override[cap.Type=%s,link.Type=%s]" % (TYPES[ct], TYPES[lt]), body="harness.C08:body_override",
                          sig="cn: bool, ct: int, cnum: bool, cab: bool, ln: bool, lt: int, lnum: bool, lab: bool, lhp: bool, sidecar: bool, addlink: bool, uselink: bool, captail: int, addpath: int",
                          pre=["ct == %d" % ct, "lt == %d" % lt, "0 <= captail <= 2", "0 <= addpath <= 2"] + (["lhp == False", "addlink == uselink", "captail == (1 if cn else 0)", "addpath == (0 if not addlink else (1 if lab else 2) if sidecar else 0)"] if tier == "quick"
                                else ["captail == (1 if cn else 0) + (1 if cab else 0)", "addpath == ((1 if lab else 0) + (1 if lnum else 0) if addlink else 0)"]),  # tied to other flags: the variants are spread over the subsets instead of multiplying them
                          timeout=300 if tier == "quick" else 1200,
                          desc="a.txt with an optional .abstract sidecar, a .cap/a.txt block and a `Path=./a.txt` block in .Links, each with a symbolic subset of "
                               "Name/Numb/Abstract(/Host+Port) and the given Type (the .cap file optionally ending in a blank line / a blank line and a comment), plus an added link (whose path is new, or relative/absolute naming an existing file): only the set fields change, X/- hides, the added link is appended, "
                               "the order is the documented one",
                          bounds="2^4 x 2^5 field subsets x sidecar x added link (symbolic)", functions=["UMNDirHandler.prep_entriesappend/MergeLinkFiles/mergeentries/entrycmp", "GopherEntry.handleeaext"]))
    obs.append(Ob(id="C08.6-extstrip", body="harness.C08:body_extstrip", sig="mode: int", pre=["0 <= mode <= 2"], timeout=120,
                  desc="extension stripping modes none / nonencoded / full give the display names the configuration comments document",
                  bounds="3 modes (symbolic) x 5 file names", functions=["UMNDirHandler.prep_entriesappend", "pygopherd.fileext.extstrip"]))
    return obs
