"""C18 -- simpleTAL never lets data become markup, code or leftover state."""
from __future__ import annotations

import vk.hx as hx
from harness import C17 as c17
from harness import tallib as T
from vk.driver import Ob

META = {
    "level": "other",
    "technique": "bounded symbolic execution (CrossHair/z3) of the real template interpreter with symbolic substituted values against a reference evaluator that escapes per the TAL specification; of the python: gate with a symbolic flag and a canary in place of eval; of context snapshots around every expansion; for pass-through, of the real HTML compiler event handlers and interpreter with symbolic attribute values and text (the regex-driven parser in front of them is replaced by its validated event contract), plus exhaustive enumeration of a TAL-free document grammar through the whole parser (stated as enumeration)",
    "claim": "For content, replace and attributes (with and without `structure`) the real output under a symbolic value over the markup metacharacters equals "
    "the fixed skeleton with the value escaped for text / for attributes, raw only under structure; python: expressions reach eval iff allowPythonPath "
    "is truthy, for every routing form, and simpletal has no other eval/exec/compile/__import__ call site; after every expansion (also with missing "
    "paths, empty repeats, nothing/default) the caller's context holds exactly what it held before apart from explicit global defines; every "
    "document of a bounded TAL-free grammar expands to an equivalent document that a second expansion leaves unchanged; for an element (ordinary, raw-text script/style, "
    "void) with a symbolic attribute value and symbolic text, the output reads back as the same element, attribute value and text.",
    "trusted": "CrossHair/z3; plugin html.escape model (validated); reference evaluator spec/tal_ref.py; html.parser for the tree comparison of pass-through documents.",
    "explanation": "Symbolic substituted values vs escaping reference; symbolic gate flag; context snapshots; enumerated document grammar.",
    "assumptions": [
        "values are bounded (|v| <= 4 over & ; a # \" <)",
        "pass-through with symbolic strings starts at the parser events (handle_starttag/handle_data/handle_endtag with cdata mode for script/style): html.parser's tokenizer is regex-driven and outside the solver's reach; the event contract is validated concretely on every run (C18.3)",
        "the TAL-free document grammar is finite (nesting <= 2, attributes with entity/quote characters, comments, void elements); pass-through is enumeration, not a solver verdict",
    ],
}

ESC_TEMPLATES = ["one000100", "one000200", "one000010", "one-structure-content", "one000110", "one200100", "one100010"]


def body_python_gate(flag_kind: int, flag_int: int, form: int) -> bool:
    """evaluatePython reaches eval iff allowPythonPath is truthy -- through every routing form."""
    from simpletal import simpleTALES

    flag = [None, False, True, 0, flag_int, ""][flag_kind]
    ran = []

    def canary(expr, g=None, l=None):
        ran.append(expr)
        return "EVALUATED"

    ctx = simpleTALES.Context(allowPythonPath=flag)
    ctx.log = T.NullLog()
    ctx.addGlobal("a", "x")
    forms = ["python: 1+1", "a/zz | python: 1+1", "string:${python: 1+1}", "not: python: 1+1", "exists: zz | python: 1+1", "nocall: zz | python: 1+1", "path: zz | python: 1+1", "python:__import__('os').getcwd()",
             " python: 1+1", "string:${ python: 1+1}", "  python:1", "not:  python: 1+1", "zz |  python: 1+1 "]
    saved = simpleTALES.__dict__.get("eval", MISSING)
    simpleTALES.eval = canary
    hx.silence_logging()
    try:
        try:
            v = ctx.evaluate(forms[form], {})
        except simpleTALES.PathNotFoundException:
            v = "NOTFOUND"
    finally:
        if saved is MISSING:
            del simpleTALES.eval
        else:
            simpleTALES.eval = saved
    hx.reach()
    if flag:
        hx.require(len(ran) == 1, "C18:python-path-not-evaluated-although-enabled", lambda: "flag=%r form=%r" % (flag, forms[form]))
    else:
        hx.require(ran == [], "C18:python-expression-evaluated-although-disabled", lambda: "flag=%r form=%r ran=%r" % (flag, forms[form], ran))
        hx.require(v != "EVALUATED", "C18:python-expression-evaluated-although-disabled", lambda: "flag=%r form=%r" % (flag, forms[form]))
    return True


MISSING = object()


def fn_eval_sites():
    """AST scan: the only eval/exec/compile/__import__ call in simpletal is inside evaluatePython,
    after the allowPythonPath test; TALFileHandler hands the configured option to the Context."""
    import ast
    import os

    bad, sites = [], []
    d = os.path.join(hx.REPO, "simpletal")
    for f in sorted(os.listdir(d)):
        if not f.endswith(".py"):
            continue
        tree = ast.parse(open(os.path.join(d, f), encoding="utf-8", errors="replace").read())
        for fn in ast.walk(tree):
            if isinstance(fn, (ast.FunctionDef, ast.AsyncFunctionDef)):
                for node in ast.walk(fn):
                    if isinstance(node, ast.Call) and isinstance(node.func, ast.Name) and node.func.id in ("eval", "exec", "compile", "__import__"):
                        sites.append("%s:%s:%d" % (f, fn.name, node.lineno))
                        if not (f == "simpleTALES.py" and fn.name == "evaluatePython"):
                            bad.append(sites[-1])
        for node in ast.walk(tree):
            if isinstance(node, ast.Call) and isinstance(node.func, ast.Name) and node.func.id in ("eval", "exec", "__import__"):
                inside = any(isinstance(fn, ast.FunctionDef) and node in ast.walk(fn) for fn in ast.walk(tree))
                if not inside:
                    bad.append("%s:<module>:%d" % (f, node.lineno))
    # evaluatePython: the gate precedes the eval
    import inspect
    import textwrap

    from simpletal import simpleTALES

    fn = ast.parse(textwrap.dedent(inspect.getsource(simpleTALES.Context.evaluatePython))).body[0]
    first = fn.body[0]
    ok_gate = isinstance(first, ast.If) and "allowPythonPath" in ast.unparse(first.test) and any(isinstance(x, ast.Return) for x in first.body)
    if bad or not ok_gate:
        return {"status": "violation", "detail": "unguarded dynamic evaluation: sites=%r gate_first=%s" % (bad, ok_gate),
                "violations": [{"body": "harness.C18:replay_eval_sites", "kwargs": {}, "sig": "C18:unguarded-eval-site"}]}
    # TALFileHandler passes the option through
    from pygopherd.handlers import tal

    seen = []

    class Ctx:
        def __init__(self, options=None, allowPythonPath=0):
            seen.append(allowPythonPath)

        def addGlobal(self, k, v):
            pass

    from vk import memvfs as mv
    from harness import dirlib as dl

    for opt, want in (("false", False), ("true", True), (None, 1)):
        cfg = dl.config()
        if opt is not None:
            cfg.set("handlers.tal.TALFileHandler", "allowpythonpath", opt)
        vfs = mv.MemVFS(cfg, {"/t.html.tal": mv.File(b"<html></html>\n")})
        h = tal.TALFileHandler("/t.html.tal", "", hx.ns(), cfg, vfs.stat("/t.html.tal"), vfs)
        if not h.canhandlerequest():
            return {"status": "inconclusive", "detail": "TALFileHandler did not accept the fixture"}
        saved = (tal.simpleTALES.Context, tal.simpleTAL.compileHTMLTemplate)
        tal.simpleTALES.Context = Ctx
        tal.simpleTAL.compileHTMLTemplate = lambda f: hx.ns(expand=lambda c, w: None)
        try:
            h.write(hx.ListWriter())
        finally:
            tal.simpleTALES.Context, tal.simpleTAL.compileHTMLTemplate = saved
        if bool(seen[-1]) != bool(want):
            return {"status": "violation", "detail": "allowpythonpath=%r reached the Context as %r" % (opt, seen[-1]),
                    "violations": [{"body": "harness.C18:replay_eval_sites", "kwargs": {}, "sig": "C18:allowpythonpath-not-passed-through"}]}
    return {"status": "discharged", "queries": len(sites), "detail": "dynamic-evaluation call sites: %r (all inside evaluatePython behind the allowPythonPath test); TALFileHandler passes the option through" % sites,
            "twin": "n/a", "samples": sites, "notes": "syntactic scan + wiring check"}


def replay_eval_sites() -> bool:
    r = fn_eval_sites()
    hx.require(r["status"] == "discharged", "C18:unguarded-eval-site", r["detail"])
    return True


# ------------------------------------------------------------------ pass-through of TAL-free documents


def _docs():
    atoms = ['plain text', 'a &amp; b &lt;c&gt;', '<br>', '<img src="a.png" alt="x &quot;q&quot;">', '<!-- a comment -->', "<i title='single &amp; quoted'>it</i>", '<input type="checkbox" checked>']
    docs = []
    for a in atoms:
        docs.append("<html><body>%s</body></html>" % a)
        docs.append('<div class="c1 c2" id="x">%s<p>%s</p></div>' % (a, a))
    for a in atoms[:4]:
        for b in atoms[3:]:
            docs.append("<ul><li>%s</li><li><b>%s</b></li></ul>" % (a, b))
    docs.append('<!DOCTYPE html><html><head><title>T &amp; t</title></head><body><p>x</p></body></html>')
    docs.append('<table border="0"><tr><td a="1" b="2">x</td></tr></table>')
    # raw-text elements: their content is not entity-decoded by HTML, so it must come through verbatim
    docs.append('<html><head><style>ul > li { color: red } a[href*="&"] {}</style></head><body><p>x</p></body></html>')
    docs.append('<div><script type="text/javascript">if (a < b && c > 0) { t = "<b>"; }</script>after &amp; text</div>')
    docs.append('<p><script>x = "&lt;";</script><textarea>&lt;t&gt;</textarea><title>a &amp; b</title></p>')
    return docs


def _tree(html_text):
    from html.parser import HTMLParser

    out = []

    class P(HTMLParser):
        def handle_starttag(self, tag, attrs):
            out.append(("start", tag, tuple(sorted((k, v if v is not None else k) for k, v in attrs))))

        def handle_endtag(self, tag):
            out.append(("end", tag))

        def handle_data(self, data):
            if out and out[-1][0] == "data":
                out[-1] = ("data", out[-1][1] + data)
            else:
                out.append(("data", data))

        def handle_comment(self, data):
            out.append(("comment", data))

        def handle_decl(self, decl):
            out.append(("decl", decl))

    p = P(convert_charrefs=True)
    p.feed(html_text)
    p.close()
    # void elements may be written <br> or <br />: drop synthetic end tags of void elements
    void = {"br", "img", "input", "hr", "meta", "link"}
    return [x for x in out if not (x[0] == "end" and x[1] in void)]


TAGS = ["p", "script", "style", "textarea", "br", "title"]
RAWTEXT = ("script", "style")  # HTML: content is raw text -- character references are NOT recognised there


REPS_TEXT = {"&": ("&amp;",), "<": ("&lt;",), ">": ("&gt;", ">"), chr(34): ("&quot;", chr(34)), chr(39): ("&#x27;", "&#39;", chr(39))}
REPS_ATTR = {"&": ("&amp;",), "<": ("&lt;", "<"), ">": ("&gt;", ">"), chr(34): ("&quot;",), chr(39): ("&#x27;", "&#39;", chr(39))}


def _reads_as(X, v, reps):
    """Does the HTML source fragment X read back as the character data v?  Written from the HTML
    syntax: each character of v must appear as itself or as one of its references; & and (in text) <,
    (in a double-quoted attribute) the double quote must be references."""
    pos = 0
    for c in v:
        for o in reps.get(c, (c,)):
            if X.startswith(o, pos):
                pos += len(o)
                break
        else:
            return False
    return pos == len(X)


def _canon(v, reps):
    out = ""
    for c in v:
        out = out + reps.get(c, (c,))[0]
    return out


def body_passthrough_events(tagk: int, av: str, d: str, d2: str, noval: bool = False) -> bool:
    """Static markup re-serialised from parser events, with symbolic attribute value and text:
    <div><TAG title=AV>D</TAG>D2</div>.  The real compiler's event handlers are driven in the order
    and with the state (cdata mode for script/style) the HTML parser produces them -- the parser
    itself (regex-driven) is outside the solver's reach; its event contract is validated concretely
    in fn_passthrough.  The real interpreter then expands the compiled program."""
    from simpletal import simpleTAL, simpleTALES

    tag = TAGS[tagk]

    def compile_and_expand(av, d, d2):
        c = simpleTAL.HTMLTemplateCompiler()
        c.log = T.NullLog()
        c.minimizeBooleanAtts = False
        c.handle_starttag("div", [])
        c.handle_starttag(tag, [("title", None if noval else av)])  # noval: the attribute is written without a value (<p title>): its value is the empty string
        if tag in c.CDATA_CONTENT_ELEMENTS:
            c.set_cdata_mode(tag)
        if tag != "br":
            if len(d):
                c.handle_data(d)
            c.handle_endtag(tag)
            c.clear_cdata_mode()
        if len(d2):
            c.handle_data(d2)
        c.handle_endtag("div")
        t = c.getTemplate()
        w = T.StrWriter()
        it = simpleTAL.HTMLTemplateInterpreter()
        ctx = simpleTALES.Context()
        ctx.log = T.NullLog()
        it.initialise(ctx, w)
        t.expandInline(ctx, w, it)
        return w.value()

    if noval:
        av = ""
    out = compile_and_expand(av, d, d2)
    hx.reach()
    head = "<div><" + tag + ' title="'
    # the canonical serialisation (minimal escaping) certainly reads back as the same document ...
    canon = head + _canon(av, REPS_ATTR) + chr(34) + ">" + ("" if tag == "br" else (d if tag in RAWTEXT else _canon(d, REPS_TEXT)) + "</" + tag + ">") + _canon(d2, REPS_TEXT) + "</div>"
    if out == canon:
        return True
    # ... any other output is read independently as HTML (written from the syntax, not from simpleTAL)
    hx.require(out.startswith(head), "C18:passthrough-start-tag-differs", lambda: "tag=%s av=%r: %r" % (tag, av, out))
    rest = out[len(head):]
    q = rest.find(chr(34) + ">")
    hx.require(q >= 0, "C18:passthrough-attribute-unterminated", lambda: repr(out))
    A = rest[:q]
    hx.require(_reads_as(A, av, REPS_ATTR), "C18:passthrough-attribute-value-changed", lambda: "tag=%s title=%r came out as %r" % (tag, av, A))
    rest = rest[q + 2:]
    if tag == "br":
        hx.require(rest.endswith("</div>"), "C18:passthrough-end-tag-missing", lambda: repr(out))
        D2 = rest[:-6]
    else:
        close = "</" + tag + ">"
        e = rest.find(close)
        hx.require(e >= 0, "C18:passthrough-end-tag-missing", lambda: repr(out))
        body = rest[:e]
        if tag in RAWTEXT:
            hx.require(body == d, "C18:passthrough-raw-text-element-content-changed", lambda: "<%s> content %r came out as %r" % (tag, d, body))
        else:
            hx.require(_reads_as(body, d, REPS_TEXT), "C18:passthrough-text-changed-or-became-markup", lambda: "<%s> text %r came out as %r" % (tag, d, body))
        tail = rest[e + len(close):]
        hx.require(tail.endswith("</div>"), "C18:passthrough-end-tag-missing", lambda: repr(out))
        D2 = tail[:-6]
    hx.require(_reads_as(D2, d2, REPS_TEXT), "C18:passthrough-text-changed-or-became-markup", lambda: "text %r after <%s> came out as %r" % (d2, tag, D2))
    return True


def fn_passthrough():
    import io

    from simpletal import simpleTAL, simpleTALES

    docs = _docs()
    # the parser-event contract body_passthrough_events relies on: order of events, attribute values
    # and text already entity-decoded, text inside script/style delivered raw while cdata_elem is set
    ev = []

    class Rec(simpleTAL.HTMLTemplateCompiler):
        def handle_starttag(self, tag, attributes):
            ev.append(("start", tag, list(attributes), self.cdata_elem))
            simpleTAL.HTMLTemplateCompiler.handle_starttag(self, tag, attributes)

        def handle_data(self, data):
            ev.append(("data", data, self.cdata_elem))
            simpleTAL.HTMLTemplateCompiler.handle_data(self, data)

        def handle_endtag(self, tag):
            ev.append(("end", tag, self.cdata_elem))
            simpleTAL.HTMLTemplateCompiler.handle_endtag(self, tag)

    for tg in TAGS:
        del ev[:]
        r = Rec()
        r.parseTemplate(io.StringIO('<div><%s title="a&amp;&quot;&lt;">x&amp;&lt;y</%s>t&gt;</div>' % (tg, tg) if tg != "br" else '<div><br title="a&amp;&quot;&lt;">t&gt;</div>'))
        raw = tg in RAWTEXT
        want = [("start", "div", [], None), ("start", tg, [("title", 'a&"<')], None)] + ([] if tg == "br" else [("data", "x&amp;&lt;y" if raw else "x&<y", tg if raw else None), ("end", tg, tg if raw else None)]) + [("data", "t>", None), ("end", "div", None)]
        if ev != want:
            return {"status": "harness_error", "detail": "HTML parser event contract differs for <%s>: %r" % (tg, ev)}
    for d in docs:
        outs = []
        cur = d
        for _ in range(2):
            t = simpleTAL.compileHTMLTemplate(io.StringIO(cur))
            w = T.StrWriter()
            it = simpleTAL.HTMLTemplateInterpreter()
            ctx = simpleTALES.Context()
            it.initialise(ctx, w)
            t.expandInline(ctx, w, it)
            cur = w.value()
            outs.append(cur)
        if _tree(outs[0]) != _tree(d):
            return {"status": "violation", "detail": "TAL-free document changed: %r -> %r" % (d, outs[0]),
                    "violations": [{"body": "harness.C18:replay_passthrough", "kwargs": {"doc": d}, "sig": "C18:passthrough-changes-document"}]}
        if outs[1] != outs[0]:
            return {"status": "violation", "detail": "second expansion changed the document: %r -> %r" % (outs[0], outs[1]),
                    "violations": [{"body": "harness.C18:replay_passthrough", "kwargs": {"doc": d}, "sig": "C18:passthrough-not-a-fixed-point"}]}
    return {"status": "discharged", "queries": len(docs), "detail": "%d TAL-free documents: same element/attribute/text tree after expansion, second expansion is the identity" % len(docs),
            "twin": "n/a", "samples": docs[:3], "notes": "exhaustive enumeration of a bounded document grammar (not a solver verdict)"}


def replay_passthrough(doc: str) -> bool:
    import io

    from simpletal import simpleTAL, simpleTALES

    def ex(s):
        t = simpleTAL.compileHTMLTemplate(io.StringIO(s))
        w = T.StrWriter()
        it = simpleTAL.HTMLTemplateInterpreter()
        ctx = simpleTALES.Context()
        it.initialise(ctx, w)
        t.expandInline(ctx, w, it)
        return w.value()

    o1 = ex(doc)
    hx.require(_tree(o1) == _tree(doc), "C18:passthrough-changes-document", lambda: "%r -> %r" % (doc, o1))
    hx.require(ex(o1) == o1, "C18:passthrough-not-a-fixed-point", lambda: repr(o1))
    return True


def obligations(tier, seed):
    obs = []
    maxlen = 4
    for nm in ESC_TEMPLATES:
        src = c17.ALL[nm].source()
        for L in range(0, maxlen + 1):
            if tier == "quick" and L == 3 and nm not in ("one000010", "one000100"):
                continue
            if L == 4 and nm not in ("one000010",) and tier == "quick":
                continue
            obs.append(Ob(id="C18.1-escape[%s,len=%d]" % (nm, L), body="harness.C17:body_template",
                          sig="name: str, cvk: int, tvk: int, avk: int, ovk: int, dvk: int, s1: str, s2: str, n: int, i1k: int, i2k: int, nitems: int",
                          pre=["name == %r" % nm, "cvk == 0", "tvk == 2", "avk == 2", "ovk == 0", "dvk == 2" if "tal:define" in src else "dvk == 0", "n == 7", "i1k == 0", "i2k == 0", "nitems == 0",
                               "len(s1) == %d" % L, "s2 == s1", ("all(c in '&;a#<' + chr(34) for c in s1)" if L < 4 else "all(c in '&;a' + chr(34) for c in s1)")], timeout=400 if tier == "quick" else 1800,
                          desc="template %s with string values of length %d over the markup metacharacters: output == skeleton with the value escaped for text / attribute context (raw only under structure); caller context restored" % (src, L),
                          bounds="|value| == %d over {& ; a # < \"}" % L, functions=["simpletal.simpleTAL.TemplateInterpreter.cmdEndTagEndScope/tagAsText/cmdAttributes/cmdContent"]))
    KK = 3 if tier == "quick" else 7
    for nm in ("one200000", "one200100", "one100000") + (("one201010",) if tier == "thorough" else ()):
        if nm not in c17.ALL:
            continue
        src = c17.ALL[nm].source()
        obs.append(Ob(id="C18.4-context[%s]" % nm, body="harness.C17:body_template",
                      sig="name: str, cvk: int, tvk: int, avk: int, ovk: int, dvk: int, s1: str, s2: str, n: int, i1k: int, i2k: int, nitems: int",
                      pre=["name == %r" % nm, "cvk == 0", "0 <= tvk <= %d" % KK, "avk == 0", "ovk == 0", "0 <= dvk <= %d" % KK, "len(s1) <= 1", "len(s2) <= 1", "all(c in 'a<' for c in s1 + s2)", "n == 7", "i1k == 0", "i2k == 0", "nitems == 0"],
                      timeout=400 if tier == "quick" else 1800,
                      desc="template %s (multi-statement define mixing global and local): after expansion the caller's context holds exactly what it held before plus the explicit globals" % src,
                      bounds="value kinds 0..%d symbolic, strings |s| <= 1 over {a <}" % KK, functions=["simpletal.simpleTAL.TemplateInterpreter.cmdDefine/cmdEndTagEndScope", "simpleTALES.Context.pushLocals/popLocals"]))
    obs.append(Ob(id="C18.2-python-gate", body="harness.C18:body_python_gate", sig="flag_kind: int, flag_int: int, form: int", pre=["0 <= flag_kind <= 5", "-3 <= flag_int <= 3", "0 <= form <= 12"], timeout=200,
                  desc="python: expressions reach eval iff allowPythonPath is truthy, through all routing forms (direct, alternation, string interpolation, not/exists/nocall/path prefixes)",
                  bounds="flag in {None, False, True, 0, -3..3, ''} x 13 routing forms incl. leading/trailing blanks (symbolic)", functions=["simpletal.simpleTALES.Context.evaluatePython/evaluate"]))
    obs.append(Ob(id="C18.2b-eval-sites", body="harness.C18:fn_eval_sites", kind="fn", engine="scan", twin=False, timeout=120,
                  desc="the only dynamic-evaluation call site in simpletal is evaluatePython behind the gate; TALFileHandler passes allowpythonpath through", bounds="all files under simpletal/"))
    for tk, tg in enumerate(TAGS):
        if tier == "quick" and tg in ("textarea", "title"):
            continue
        L = 2 if tier == "quick" else 3
        for part, pre in (("attr", ["len(av) <= %d" % L, "len(d) == 0", "len(d2) == 0"]), ("text", ["len(av) == 0", "len(d) <= %d" % L, "len(d2) <= 1"])):
            if tg == "br" and part == "text":
                pre = ["len(av) == 0", "len(d) == 0", "len(d2) <= %d" % L]
            obs.append(Ob(id="C18.3b-passthrough-events[%s,%s]" % (tg, part), body="harness.C18:body_passthrough_events", sig="tagk: int, av: str, d: str, d2: str, noval: bool",
                          pre=["tagk == %d" % tk] + (["noval == False"] if part == "text" else []) + pre + ["all(c in '&<>;a' + chr(34) + chr(39) for c in av + d + d2)"],
                          timeout=400 if tier == "quick" else 1800,
                          desc="TAL-free <div><%s title=AV>D</%s>D2</div> with symbolic %s, through the real compiler event handlers and the real interpreter: the output reads back (independent HTML reading) as the same element, attribute value and text%s" % (tg, tg, "attribute value" if part == "attr" else "text", "; script/style content is raw text and a second expansion is the identity" if tg in RAWTEXT else ""),
                          bounds="|%s| <= %d%s over {& < > ; a \" '}" % ("AV" if part == "attr" else "D", L, "" if part == "attr" else ", |D2| <= 1"),
                          functions=["simpletal.simpleTAL.HTMLTemplateCompiler.handle_starttag/handle_data/handle_endtag/tagAsText", "simpletal.simpleTAL.TemplateCompiler.parseStartTag/parseData/popTag", "simpletal.simpleTAL.TemplateInterpreter (TAL_OUTPUT)"]))
    obs.append(Ob(id="C18.3-passthrough", body="harness.C18:fn_passthrough", kind="fn", engine="enumeration", twin=False, timeout=300,
                  desc="TAL-free documents expand to an equivalent document; a second expansion changes nothing", bounds="bounded document grammar (enumerated)"))
    return obs
