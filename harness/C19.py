"""C19 -- privileges are dropped completely and in the right order at start-up."""
from __future__ import annotations

import vk.hx as hx
from vk.driver import Ob

META = {
    "level": "other",
    "technique": "bounded symbolic execution (CrossHair/z3) of init_security and initialize over recording os/pwd/grp/ssl stubs with a symbolic fault index",
    "claim": "For every combination of usechroot/setuid/setgid (and tls/detach/pidfile for initialize) and every position of a single failing "
    "privileged call, all execution paths of the real functions were explored by CrossHair and the recorded call sequence equals the documented one; "
    "this is exhaustive within that finite space, which is exactly the property's quantifier.",
    "trusted": "CrossHair's path exploration and z3; recording stubs stand for os/pwd/grp (kernel semantics of the calls are not modelled).",
    "explanation": "Bounded symbolic execution (CrossHair/z3) of the real pygopherd.initialization.init_security and "
    "initialize with the os/pwd/grp/ssl/server environment replaced by recording stubs whose failure point is a symbolic "
    "variable; configuration flags are symbolic booleans.",
    "assumptions": [
        "os/pwd/grp calls are modelled by recorders: each call either succeeds or raises OSError/KeyError at one symbolic call index",
        "the kernel semantics of chroot/chdir/setgroups/setregid/setreuid are not modelled; the property is about which calls are made, with which arguments, in which order",
    ],
}

ROOT = "/srv/gopher"
UID, GID = 1234, 5678


def _mkerr(ekind: int, name: str):
    """The injected failure: a realistic OSError of a symbolic kind (EPERM / EINVAL / ENOENT)."""
    if ekind == 0:
        e = PermissionError(1, "Operation not permitted: " + name)
    elif ekind == 1:
        e = OSError(22, "Invalid argument: " + name)
    else:
        e = FileNotFoundError(2, "No such file or directory: " + name)
    e._vk_injected = True
    return e


def _is_injected(e) -> bool:
    return getattr(e, "_vk_injected", False)


class _Env:
    """Recording stand-in for the os / pwd / grp modules inside pygopherd.initialization."""

    def __init__(self, fail_at: int, ekind: int = 0):
        self.calls = []
        self.fail_at = fail_at
        self.ekind = ekind

    def _rec(self, name, *args):
        idx = len(self.calls)
        self.calls.append((name,) + args)
        if idx == self.fail_at:
            raise _mkerr(self.ekind, name)

    # os
    def chroot(self, p):
        self._rec("chroot", p)

    def chdir(self, p):
        self._rec("chdir", p)

    def fchdir(self, fd):
        self._rec("chdir", "<fd>")

    def setgroups(self, g):
        self._rec("setgroups", tuple(g))

    def setregid(self, a, b):
        self._rec("setregid", a, b)

    def setreuid(self, a, b):
        self._rec("setreuid", a, b)

    def setgid(self, a):
        self._rec("setregid", a, a)

    def setuid(self, a):
        self._rec("setreuid", a, a)

    def setresgid(self, a, b, c):
        self._rec("setregid", a, b)

    def setresuid(self, a, b, c):
        self._rec("setreuid", a, b)

    def initgroups(self, *a):
        self._rec("initgroups", *a)

    # pwd / grp
    def getpwnam(self, n):
        self._rec("getpwnam", n)
        return ("u", "x", UID, GID, "", "/", "/bin/sh")

    def getgrnam(self, n):
        self._rec("getgrnam", n)
        return ("g", "x", GID, [])

    import os as _os

    path = _os.path
    R_OK = _os.R_OK
    access = staticmethod(_os.access)
    environ = _os.environ
    del _os


def _install(env):
    import sys

    from pygopherd import initialization

    initialization.os = env
    sys.modules["pwd"] = env
    sys.modules["grp"] = env


def _uninstall():
    import os
    import sys

    from pygopherd import initialization

    initialization.os = os
    sys.modules.pop("pwd", None)
    sys.modules.pop("grp", None)


def _expected(usechroot, setuid, setgid):
    """The documented sequence of privileged calls for a configuration (names only for chdir)."""
    seq = []
    if setuid:
        seq.append(("getpwnam", "gopher"))
    if setgid:
        seq.append(("getgrnam", "gopher"))
    if usechroot:
        seq.append(("chroot", ROOT))
        seq.append(("chdir",))
    if setuid or setgid:
        seq.append(("setgroups", ()))
    if setgid:
        seq.append(("setregid", GID, GID))
    if setuid:
        seq.append(("setreuid", UID, UID))
    return seq


def body_init_security(usechroot: bool, setuid: bool, setgid: bool, fail: int, ekind: int) -> bool:
    from pygopherd import initialization

    hx.silence_logging()
    cfg = hx.DictConfig()
    cfg.set("pygopherd", "usechroot", usechroot)
    cfg.set("pygopherd", "root", ROOT)
    if setuid:
        cfg.set("pygopherd", "setuid", "gopher")
    if setgid:
        cfg.set("pygopherd", "setgid", "gopher")
    env = _Env(fail, ekind)
    _install(env)
    raised = None
    try:
        try:
            initialization.init_security(cfg)
        except OSError as e:
            if not _is_injected(e):
                raise
            raised = e
    finally:
        _uninstall()
    exp = _expected(usechroot, setuid, setgid)
    got = env.calls
    hx.reach()
    # normalise chdir: argument must be inside the new root: "/" (after chroot) -- anything
    # else relative to the old root is outside once chroot happened.
    norm = []
    for c in got:
        if c[0] == "chdir":
            hx.require(c[1] == "/", "C19:chdir-not-inside-new-root", lambda: repr(c))
            norm.append(("chdir",))
        else:
            norm.append(c)
    if 0 <= fail < len(exp):
        # the failing call is the last one recorded, and the exception propagated
        hx.require(raised is not None, "C19:failure-swallowed", lambda: "call %d failed but init_security returned normally; calls=%r" % (fail, got))
        hx.require(norm == exp[: fail + 1], "C19:calls-after-failure", lambda: "expected %r got %r" % (exp[: fail + 1], norm))
        return True
    hx.require(raised is None, "C19:harness", "unexpected failure")
    if norm != exp:
        if usechroot and ("chdir",) not in norm and [c for c in norm if c[0] != "chdir"] == [c for c in exp if c[0] != "chdir"]:
            raise hx.Violation("C19:no-chdir-after-chroot", "calls=%r" % (got,))
        raise hx.Violation("C19:wrong-sequence", "expected %r got %r" % (exp, norm))
    # root rewritten to "/" iff chrooted
    hx.require(cfg.get("pygopherd", "root") == ("/" if usechroot else ROOT), "C19:root-not-rewritten", lambda: repr(cfg.get("pygopherd", "root")))
    return True


class _StartupEnv:
    """Records the order of the big start-up steps inside initialize()."""

    def __init__(self, fail_at: int, ekind: int = 0):
        self.events = []
        self.fail_at = fail_at
        self.ekind = ekind

    def ev(self, name):
        idx = len(self.events)
        self.events.append(name)
        if idx == self.fail_at:
            raise _mkerr(self.ekind, name)


def body_initialize(enable_tls: bool, usechroot: bool, setuid: bool, setgid: bool, detach: bool, pidfile: bool, fail: int, ekind: int) -> bool:
    """Real initialize(): bind + key load precede every privilege step; any failure leaves by exception."""
    import ssl as real_ssl

    import pygopherd.server
    from pygopherd import initialization, sighandlers

    hx.silence_logging()
    env = _StartupEnv(fail, ekind)
    cfg = hx.DictConfig(True)
    cfg.set("pygopherd", "usechroot", usechroot)
    cfg.set("pygopherd", "root", ROOT)
    cfg.set("pygopherd", "detach", detach)
    cfg.set("pygopherd", "enable_tls", enable_tls)
    cfg.set("pygopherd", "tls_certfile", "cert.pem")
    cfg.set("pygopherd", "tls_keyfile", "key.pem")
    cfg.set("pygopherd", "servertype", "ThreadingTCPServer")
    if not pidfile:
        cfg.remove_option("pygopherd", "pidfile")
    if setuid:
        cfg.set("pygopherd", "setuid", "gopher")
    if setgid:
        cfg.set("pygopherd", "setgid", "gopher")

    class OsEnv(_Env):
        def _rec(self, name, *args):
            self.calls.append((name,) + args)
            env.ev(name)

        def fork(self):
            env.ev("fork")
            return 0

        def getpid(self):
            return 4242

        def setpgrp(self):
            pass  # not a privileged step: init_process_group documents that its failure is only logged

        def getpgrp(self):
            return 4242

    osenv = OsEnv(-1)

    class Ctx:
        def load_cert_chain(self, c, k):
            env.ev("load_cert_chain")

    class SSLStub:
        Purpose = real_ssl.Purpose
        SSLContext = real_ssl.SSLContext

        @staticmethod
        def create_default_context(p):
            return Ctx()

    class Srv:
        def __init__(self, config, address, rh, context=None):
            env.ev("bind")
            self.config = config
            self.context = context

    saved = (initialization.init_config, initialization.init_mimetypes, initialization.ssl,
             pygopherd.server.ThreadingTCPServer, initialization.init_pidfile,
             sighandlers.setsighuphandler, sighandlers.setsigtermhandler, initialization.init_logger)
    initialization.init_config = lambda fn: cfg
    initialization.init_mimetypes = lambda c: None
    initialization.init_logger = lambda c, f: None
    initialization.ssl = SSLStub
    pygopherd.server.ThreadingTCPServer = Srv
    orig_pidfile = initialization.init_pidfile

    def pidf(c):
        if c.has_option("pygopherd", "pidfile"):
            env.ev("pidfile")

    initialization.init_pidfile = pidf
    sighandlers.setsighuphandler = lambda: None
    sighandlers.setsigtermhandler = lambda: None
    _install(osenv)
    raised = None
    srv = None
    try:
        try:
            srv = initialization.initialize("whatever.conf")
        except OSError as e:
            if not _is_injected(e):
                raise
            raised = e
    finally:
        _uninstall()
        (initialization.init_config, initialization.init_mimetypes, initialization.ssl,
         pygopherd.server.ThreadingTCPServer, initialization.init_pidfile,
         sighandlers.setsighuphandler, sighandlers.setsigtermhandler, initialization.init_logger) = saved
    ev = env.events
    hx.reach()
    priv = ("chroot", "chdir", "setgroups", "setregid", "setreuid")
    if 0 <= fail < len(ev) or raised is not None:
        hx.require(raised is not None and srv is None, "C19:startup-failure-swallowed", lambda: "events=%r" % (ev,))
        hx.require(len(ev) == fail + 1, "C19:steps-after-failure", lambda: "events=%r fail=%d" % (ev, fail))
        return True
    first_priv = min([i for i, e in enumerate(ev) if e in priv] or [len(ev)])
    hx.require("bind" in ev and ev.index("bind") < first_priv, "C19:bind-after-privdrop", lambda: "events=%r" % (ev,))
    if enable_tls:
        hx.require("load_cert_chain" in ev and ev.index("load_cert_chain") < first_priv, "C19:keys-after-privdrop", lambda: "events=%r" % (ev,))
    # the lookups must precede chroot (inside the chroot /etc/passwd may not exist)
    if usechroot:
        ci = ev.index("chroot") if "chroot" in ev else -1
        hx.require(ci >= 0, "C19:no-chroot", lambda: "events=%r" % (ev,))
        for look in ("getpwnam", "getgrnam"):
            if look in ev:
                hx.require(ev.index(look) < ci, "C19:lookup-after-chroot", lambda: "events=%r" % (ev,))
    return True


def obligations(tier, seed):
    return [
        Ob(
            id="C19.1-init_security",
            body="harness.C19:body_init_security",
            sig="usechroot: bool, setuid: bool, setgid: bool, fail: int, ekind: int",
            pre=["-1 <= fail <= 8", "0 <= ekind <= 2"],
            desc="real init_security: lookups, chroot(root)+chdir('/'), setgroups(()), setregid, setreuid in this order under the documented guards; "
            "root rewritten to / iff chrooted; a failing call propagates and no later privileged call is made",
            bounds="8 configurations x failing call index -1..8 x error kind {EPERM, EINVAL, ENOENT} (all symbolic)",
            timeout=60,
            functions=["pygopherd.initialization.init_security"],
        ),
    ] + [
        Ob(
            id="C19.2-initialize[tls=%d,detach=%d,pidfile=%d]" % (t, d, p),
            body="harness.C19:body_initialize",
            sig="enable_tls: bool, usechroot: bool, setuid: bool, setgid: bool, detach: bool, pidfile: bool, fail: int, ekind: int",
            pre=["-1 <= fail <= 12", "0 <= ekind <= 2", "enable_tls == %s" % bool(t), "detach == %s" % bool(d), "pidfile == %s" % bool(p)],
            desc="real initialize(): bind and TLS key load precede every privilege-dropping call, user/group lookups precede chroot, "
            "and a failure of any recorded step (bind, key load, fork, pidfile, any privileged call) leaves initialize by exception with no later step",
            bounds="partition tls=%d detach=%d pidfile=%d; usechroot/setuid/setgid symbolic x failing step index -1..12 x error kind {EPERM, EINVAL, ENOENT} symbolic" % (t, d, p),
            timeout=120,
            functions=["pygopherd.initialization.initialize", "init_ssl_context", "get_server", "init_conditional_detach", "init_process_group", "init_security"],
        )
        for t in (0, 1) for d in (0, 1) for p in (0, 1)
    ]
