"""C09 -- gophermap files are rendered line for line as documented."""
from __future__ import annotations

import vk.hx as hx
from harness import dirlib as dl
from spec import gophermap as ref
from vk import memvfs as mv
from vk.driver import Ob

META = {
    "level": "other",
    "technique": "bounded symbolic execution (CrossHair/z3) of the real BuckGophermapHandler over an in-memory VFS, differentially against a reference reader written from the manual",
    "claim": "For symbolic short lines, and for lines assembled from a symbolic choice of item type, selector form, host and port fields, the real "
    "prepare() yields exactly one entry per line, in file order, whose type, description, selector, host and port are the documented ones -- in a "
    "directory holding `gophermap` and in a standalone *.gophermap file (relative selectors resolve against the containing directory), at the root "
    "and below it, whether or not the linked object exists; prepare() never consults the protocol object; the handler is chosen for exactly the "
    "documented stat/isfile situations.",
    "trusted": "CrossHair/z3; MemVFS; the reference reader spec/gophermap.py.",
    "explanation": "Differential symbolic execution: real gophermap reader vs reference reader.",
    "assumptions": [
        "well-formed link lines: a type character is present (first field non-empty) and a port field is decimal; other lines are skipped by the harness",
        "informational lines are compared modulo leading/trailing blanks (the manual does not say whether they are kept)",
        "line length is bounded (symbolic lines |l| <= 5 over a 7-character alphabet; assembled lines with concrete field values)",
    ],
}


def _proto(cfg):
    return hx.ns(server=hx.make_server(cfg), requesthandler=hx.make_rh(False), config=cfg)


class _NoProto:
    """A protocol object that may not be looked at."""

    def __getattr__(self, name):
        raise AssertionError("gophermap rendering consulted the protocol object: ." + name)


def _run(lines, mode, root, strict_proto=False):
    """mode 0: directory with a `gophermap`; mode 1: standalone file x.gophermap.
    Returns (entries, base) with entries = [(type, name, selector, host, port)]."""
    from pygopherd.handlers import gophermap

    cfg = dl.config()
    base = "" if root else "/k"
    dsel = base or "/"
    nodes = {"/": mv.Dir(["k", "sub", "f.txt"]), "/k": mv.Dir(["sub", "f.txt"]), base + "/sub": mv.Dir([]), base + "/f.txt": mv.File(b"x\n"),
             "/abs": mv.Dir([]), base + "/a": mv.Dir([])}
    if mode == 0:
        nodes[base + "/gophermap"] = mv.File(lines)
        sel = dsel
    else:
        nodes[base + "/x.gophermap"] = mv.File(lines)
        sel = base + "/x.gophermap"
    vfs = mv.MemVFS(cfg, nodes)
    dl.install_dir_env(vfs, 5000, dl.PickleStub())
    try:
        h = gophermap.BuckGophermapHandler(sel, "", _NoProto() if strict_proto else _proto(cfg), cfg, vfs.stat(sel), vfs)
        hx.require(bool(h.canhandlerequest()), "C09:handler-not-chosen", lambda: "selector=%r" % sel)
        h.prepare()
        hx.require(h.isdir(), "C09:not-a-menu", "")
        return [(e.type, e.name, e.selector, e.host, e.port) for e in h.getdirlist()], base
    finally:
        dl.restore_dir_env()


def _wellformed(line):
    if "\t" not in line:
        return True
    f = [x.strip() for x in line.split("\t")]
    if f[0] == "":
        return False  # no type character
    if len(f) > 3 and f[3] != "" and not all(c in "0123456789" for c in f[3]):
        return False
    # an empty description with an empty selector is well-formed: it is how other servers and
    # generators write a blank spacer line (`i<TAB><TAB>error.host<TAB>1`)
    return True


def _cmp(got, want):
    if want[0] == "i":
        return got[0] == "i" and (got[1] or "").strip() == want[1]
    if want[1] == "" and got[1] != "":
        # an empty description may be filled in from the linked file's name
        return got[0] == want[0] and got[2:] == want[2:] and got[1] == want[2].rstrip("/").rsplit("/", 1)[-1]
    return got == want


def body_line(line: str, mode: int, root: bool) -> bool:
    if not _wellformed(line) or "\n" in line or "\r" in line:
        return True
    try:
        got, base = _run([line + "\n"], mode, root)
    except hx.Violation:
        raise
    except Exception as e:
        raise hx.Violation("C09:reader-raises:%s" % type(e).__name__, "line=%r: %r" % (line, e))
    hx.reach()
    want = ref.parse_line(line, base)
    hx.require(len(got) == 1, "C09:not-one-entry-per-line", lambda: "line=%r entries=%r" % (line, got))
    hx.require(_cmp(got[0], want), "C09:entry-differs", lambda: "line=%r mode=%d root=%s real=%r documented=%r" % (line, mode, root, got[0], want))
    return True


TYPES = ["0", "1", "7", "h", "i", "9"]
SELS = [None, "", "f.txt", "sub", "/abs", "/abs/deep", "URL:http://x/y", "nonexistent", "a/"]
HOSTS = [None, "", "remote.example"]
PORTS = [None, "", "7070"]


def _assemble(t, s, h, p):
    fields = [TYPES[t] + "Description %s" % t]
    rest = [SELS[s], HOSTS[h], PORTS[p]]
    while rest and rest[-1] is None:
        rest.pop()
    for r in rest:
        fields.append(r if r is not None else "")
    return "\t".join(fields)


def body_fields(t: int, s: int, h: int, p: int, mode: int, root: bool, t2: int, s2: int) -> bool:
    """Two assembled link lines around an informational line and a blank line: one entry per line, in file order."""
    l1 = _assemble(t, s, h, p)
    l2 = _assemble(t2, s2, 0, 0)
    if "\t" not in l1:
        l1 = l1 + "\t"  # a lone first field: make it a link line with an empty selector
    if "\t" not in l2:
        l2 = l2 + "\t"
    lines = [l1, "Some informational text", "", l2]
    try:
        got, base = _run([l + "\r\n" for l in lines], mode, root, strict_proto=True)
    except hx.Violation:
        raise
    except Exception as e:
        raise hx.Violation("C09:reader-raises:%s" % type(e).__name__, "lines=%r: %r" % (lines, e))
    hx.reach()
    got2, _ = _run([l + "\r\n" for l in lines], mode, root, strict_proto=True)
    hx.require(got2 == got, "C09:second-listing-differs-from-first", lambda: "first=%r second=%r" % (got, got2))
    want = [ref.parse_line(l, base) for l in lines]
    hx.require(len(got) == len(want), "C09:not-one-entry-per-line", lambda: "lines=%r entries=%r" % (lines, got))
    for g, w, l in zip(got, want, lines):
        hx.require(_cmp(g, w), "C09:entry-differs", lambda: "line=%r mode=%d root=%s real=%r documented=%r" % (l, mode, root, g, w))
    return True


def body_choice(isdir: bool, isreg: bool, has_map: bool, map_is_dir: bool, suffix: int) -> bool:
    """canhandlerequest: a directory whose `gophermap` is a regular file, or a regular file whose
    name ends in .gophermap -- nothing else."""
    from pygopherd.handlers import gophermap

    cfg = dl.config()
    name = ["/k", "/k.gophermap", "/k.gophermap.txt", "/gophermap"][suffix]
    nodes = {"/": mv.Dir([])}
    if isdir:
        nodes[name] = mv.Dir([])
        if has_map:
            nodes[name + "/gophermap"] = mv.Dir([]) if map_is_dir else mv.File(b"info\n")
    elif isreg:
        nodes[name] = mv.File(b"info\n")
    vfs = mv.MemVFS(cfg, nodes)
    try:
        st = vfs.stat(name)
    except OSError:
        st = None
    h = gophermap.BuckGophermapHandler(name, "", _proto(cfg), cfg, st, vfs)
    got = bool(h.canhandlerequest())
    hx.reach()
    want = (isdir and has_map and not map_is_dir) or ((not isdir) and isreg and name.endswith(".gophermap"))
    hx.require(got == want, "C09:handler-choice", lambda: "selector=%r isdir=%s isreg=%s has_map=%s map_is_dir=%s: %s" % (name, isdir, isreg, has_map, map_is_dir, got))
    return True


def obligations(tier, seed):
    obs = []
    maxlen = 4 if tier == "quick" else 5
    for mode in (0, 1):
        for root in (False, True):
            for n in range(1, maxlen + 1):
                obs.append(Ob(id="C09.1-line[%s,%s,len=%d]" % ("dir" if mode == 0 else "file", "root" if root else "/k", n), body="harness.C09:body_line",
                              sig="line: str, mode: int, root: bool", pre=["mode == %d" % mode, "root == %s" % root, "len(line) == %d" % n, "all(c in chr(9) + '/a1 U:' for c in line)"],
                              timeout=300 if tier == "quick" else 1200,
                              desc="one symbolic gophermap line: exactly one entry whose type/description/selector/host/port are the documented ones",
                              bounds="|line| == %d over {TAB / a 1 SPACE U :}" % n, functions=["pygopherd.handlers.gophermap.BuckGophermapHandler.prepare/canhandlerequest", "gopherentry.getinfoentry"]))
    for mode in (0, 1):
        for root in (False, True):
            for t in range(len(TYPES)):
                if tier == "quick" and t not in (0, 2, 4):
                    continue
                # ~0.8 s per path: quick = 9 x 3 x 3 x 2 paths per obligation; thorough is partitioned by selector form
                for sp in ([None] if tier == "quick" else list(range(len(SELS)))):
                    obs.append(Ob(id="C09.2-fields[%s,%s,type=%s%s]" % ("dir" if mode == 0 else "file", "root" if root else "/k", TYPES[t], "" if sp is None else ",sel=%d" % sp), body="harness.C09:body_fields",
                                  sig="t: int, s: int, h: int, p: int, mode: int, root: bool, t2: int, s2: int",
                                  pre=["mode == %d" % mode, "root == %s" % root, "t == %d" % t, ("0 <= s < %d" % len(SELS)) if sp is None else "s == %d" % sp, "0 <= h <= 2", "0 <= p <= 2", "0 <= t2 < %d" % len(TYPES), "0 <= s2 <= 1"]
                                  + (["t2 == 1"] if tier == "quick" else []), timeout=300 if tier == "quick" else 900,
                                  desc="a link line with symbolic selector form (missing, empty, relative file/dir, absolute, URL:, nonexistent), host and port (missing/empty/given), an info line, "
                                       "a blank line and a second link line: one entry per line in file order with the documented fields; prepare() never touches the protocol object",
                                  bounds=("9 selector forms" if sp is None else "selector form %d" % sp) + " x 3 host x 3 port x second line (%s types x 2 selector forms), symbolic indices" % ("1" if tier == "quick" else "6"),
                                  functions=["pygopherd.handlers.gophermap.BuckGophermapHandler.prepare", "GopherEntry.populatefromvfs"]))
    from harness import C06 as c06

    for kind in c06.KINDS:
        for form, fname in ((5, "blank-info-line"), (0, "empty-description-link"), (6, "selector-containing-URL:")):
            obs.append(Ob(id="C09.4-render[%s,%s]" % (dl.PROTO_NAMES[kind], fname), body="harness.C06:body_agree", sig="kind: int, form: int, t: int, name: str, tail: str, port: int",
                          pre=["kind == %d" % kind, "form == %d" % form, "0 <= t < %d" % len(c06.TYPES), "len(name) <= 1", "all(c in 'n ' for c in name)", "name == name.strip()", "tail == 'a'", "port == 70"],
                          timeout=200, desc="the same gophermap entry (a blank informational line / a link with an empty description) is rendered by %s with the entry's own (possibly empty) text, never with its selector" % dl.PROTO_NAMES[kind],
                          bounds="description '' or one character; all item types (symbolic)", functions=["protocols.*.renderobjinfo/getrenderstr"]))
    obs.append(Ob(id="C09.3-choice", body="harness.C09:body_choice", sig="isdir: bool, isreg: bool, has_map: bool, map_is_dir: bool, suffix: int", pre=["0 <= suffix <= 3"], timeout=120,
                  desc="the handler is chosen for a directory whose `gophermap` is a regular file and for regular files named *.gophermap, nothing else",
                  bounds="stat class x gophermap presence/kind x 4 selector spellings (symbolic)", functions=["BuckGophermapHandler.canhandlerequest"]))
    return obs
