"""C13 -- generated HTML, WML and Gopher+ blocks cannot be subverted by data."""
from __future__ import annotations

import vk.hx as hx
from harness import dirlib as dl
from harness import renderlib as rl
from vk.driver import Ob

META = {
    "level": "other",
    "technique": "bounded symbolic execution (CrossHair/z3) of the real HTML/WML/Gopher+ renderers with a symbolic payload at every echo position; oracle = element/attribute skeleton (subsequence of < > \") equal to the skeleton for an inert payload",
    "claim": "For every position where request- or content-derived text is echoed (entry name, local selector, URL: selector, remote host, directory "
    "title, not-found message, redirect URL, text lines converted to WML, Gopher+ attribute text) the real renderer is executed with a symbolic "
    "payload over the markup metacharacters; on every path the page has the same element/attribute skeleton as for an inert payload, so data "
    "never changes the page structure; Gopher+ block content lines always start with a blank and can never pass for block headers."
    " HTTP/WAP header blocks contain no client text (request path or request headers, marked and with a symbolic tail) and only well-formed lines; attribute lines of any length stay single blank-prefixed lines.",
    "trusted": "CrossHair/z3; plugin models of %-formatting, html.escape (validated) and of UTF-8/surrogateescape encoding as an opaque bijection; urllib.parse.quote as a tagging stub (its output alphabet is validated in C05).",
    "explanation": "Skeleton non-interference of renderers under symbolic payloads.",
    "assumptions": [
        "payloads are bounded (|p| <= 3 over < > & \" ' CR LF and a letter)",
        "urllib.parse.quote returns only unreserved characters and %XX (validated on the real function in C05.2)",
        "names containing CR/LF in Gopher menu lines are outside the claim (the Gopher family cannot express them)",
        "a URL: selector of a listed entry contains no LF (link files and gophermaps are line based); with an LF HTTPProtocol.renderobjinfo raises AttributeError from re.match('(/|)URL:(.+)$') -- noted in DESIGN.md as an observation outside this property",
    ],
}

ALPH = "<>&\"'\r\na"
ALPH_PRE = "all(c in '<>&' + chr(34) + chr(39) + chr(13) + chr(10) + 'a' for c in p)"
TYPES = ["0", "1", "7", "h", "i"]
POS = ["name", "selector-as-name", "url-selector", "remote-host", "local-selector-with-name", "mimetype"]


def _entry_for(cfg, pos, payload, typ):
    if pos == 0:
        return rl.entry(cfg, typ, payload, "/x/y", mimetype="text/plain")
    if pos == 1:
        return rl.entry(cfg, typ, None, "/x/" + payload, mimetype="text/plain")
    if pos == 2:
        return rl.entry(cfg, typ, "Link", "URL:http://h/" + payload, mimetype="text/html")
    if pos == 3:
        return rl.entry(cfg, typ, "Remote", "/sel", host="h" + payload, port=70, mimetype="text/plain")
    if pos == 4:
        return rl.entry(cfg, typ, "Local", "/x/" + payload, mimetype="text/plain")
    return rl.entry(cfg, typ, "Typed", "/x/y", mimetype="text/" + payload)


def _render_entry(kind, pos, payload, typ):
    cfg = hx.DictConfig(True)
    q = rl.QuoteStub()
    q.install()
    try:
        p = rl.proto(kind, cfg)
        if kind in (2, 3):
            p.iconmapping = eval(cfg.get("protocols.http.HTTPProtocol", "iconmapping"))
        p.entry = rl.entry(cfg, "1", "dir", "/dir", mimetype="application/gopher-menu")
        if kind == 3:
            p.renderdirstart(p.entry)
        return p.renderobjinfo(_entry_for(cfg, pos, payload, typ))
    finally:
        q.uninstall()


def body_entry(kind: int, pos: int, t: int, p: str) -> bool:
    out = _render_entry(kind, pos, p, TYPES[t])
    ref = _render_entry(kind, pos, "a", TYPES[t])
    hx.reach()
    hx.require(rl.skeleton(out) == rl.skeleton(ref), "C13:markup-injection:%s:%s" % (dl.PROTO_NAMES[kind], POS[pos]),
               lambda: "type=%s payload=%r page=%r" % (TYPES[t], p, out[:300]))
    return True


def body_dirpage(kind: int, where: int, p: str) -> bool:
    """where 0: directory title (renderdirstart), 1: not-found message, 2: dir end (selector in geturl)"""
    cfg = hx.DictConfig(True)

    def run(payload):
        q = rl.QuoteStub()
        q.install()
        try:
            w = hx.ListWriter()
            pr = rl.proto(kind, cfg, wfile=w)
            if where == 0:
                pr.entry = rl.entry(cfg, "1", payload, "/d", mimetype="application/gopher-menu")
                return pr.renderdirstart(pr.entry)
            if where == 1:
                pr.filenotfound(payload)
                return w.gettext()
            if where == 2:
                pr.entry = rl.entry(cfg, "1", "name", "/d/" + payload, mimetype="application/gopher-menu")
                return pr.renderdirend(pr.entry) or ""
            # a real directory whose name merely starts with "URL:" (no "://", so it is not a URL link)
            pr.entry = rl.entry(cfg, "1", "name", "/URL:x" + payload, mimetype="application/gopher-menu")
            if where == 3:
                return pr.renderdirstart(pr.entry) or ""
            return pr.renderdirend(pr.entry) or ""
        finally:
            q.uninstall()

    out, ref = run(p), run("a")
    hx.reach()
    hx.require(rl.skeleton(out) == rl.skeleton(ref), "C13:markup-injection:%s:%s" % (dl.PROTO_NAMES[kind], ["dir-title", "notfound-message", "dir-end", "dir-named-URL:start", "dir-named-URL:end"][where]),
               lambda: "payload=%r page=%r" % (p, out[:300]))
    return True


def body_urlpage(slash: bool, p: str) -> bool:
    """HTMLURLHandler.write: the redirect page for a URL: selector carrying a payload."""
    from pygopherd.handlers import url

    cfg = hx.DictConfig(True)

    def run(payload):
        sel = ("/" if slash else "") + "URL:http://h/" + payload
        h = url.HTMLURLHandler(sel, "", None, cfg, None, hx.ns())
        w = hx.ListWriter()
        h.write(w)
        return w.gettext()

    out, ref = run(p), run("a")
    hx.reach()
    hx.require(rl.skeleton(out) == rl.skeleton(ref), "C13:markup-injection:url-redirect-page", lambda: "slash=%s payload=%r page=%r" % (slash, p, out[:300]))
    return True


def body_waptext(l1: str, l2: str) -> bool:
    """WAP text -> WML conversion of a two-line document."""
    from pygopherd.protocols import wap

    cfg = hx.DictConfig(True)

    def run(a, b):
        w = hx.ListWriter()
        pr = rl.proto(3, cfg, wfile=w)
        pr.needsconversion = 1

        class H:
            def write(self, f):
                f.write(b"first\n")

        pr.handler = H()

        class FakeIO:
            def __init__(self):
                self.lines = [a + "\n", b + "\n"]
                self.i = 0

            def write(self, x):
                pass

            def seek(self, n):
                pass

            def readline(self):
                if self.i < len(self.lines):
                    s = self.lines[self.i]
                    self.i += 1
                    return hx.StrLine(s)
                return hx.StrLine("")

        saved = wap.io
        wap.io = hx.ns(BytesIO=FakeIO)
        try:
            pr.handlerwrite(w)
        finally:
            wap.io = saved
        return w.gettext()

    out, ref = run(l1, l2), run("a", "a")
    hx.reach()
    hx.require(rl.skeleton(out) == rl.skeleton(ref) or (l1.strip() == "" or l2.strip() == ""), "C13:markup-injection:wap-text",
               lambda: "lines=%r,%r page=%r" % (l1, l2, out[:300]))
    if l1.strip() != "" and l2.strip() != "":
        return True
    # blank lines become paragraph breaks: still no payload-controlled markup
    sk = rl.skeleton(out)
    hx.require(sk.count("<") == sk.count(">"), "C13:markup-injection:wap-text", lambda: "lines=%r,%r page=%r" % (l1, l2, out[:300]))
    return True


def body_getblock(text: str, blk: int) -> bool:
    """Gopher+ attribute block: every line after the header starts with a blank, so content can never
    pass for a block header (a line starting with '+')."""
    cfg = hx.DictConfig(True)
    name = ["ABSTRACT", "KEYWORDS", "ASK", "3D"][blk]
    pr = rl.proto(1, cfg)
    e = rl.entry(cfg, "0", "n", "/x", mimetype="text/plain", ea={name: text})
    out = pr.getblock("+" + name, e)
    hx.reach()
    lines = out.split("\r\n")
    hx.require(lines[0] == "+" + name + ":", "C13:gopherplus-block-header", lambda: repr(out))
    hx.require(out.endswith("\r\n") , "C13:gopherplus-block-unterminated", lambda: repr(out))
    for l in lines[1:-1]:
        hx.require(l.startswith(" "), "C13:gopherplus-content-line-without-leading-blank", lambda: "text=%r block=%r" % (text, out))
        hx.require("\n" not in l and "\r" not in l, "C13:gopherplus-content-line-with-bare-newline", lambda: "text=%r block=%r" % (text, out))
    return True


FILLERS = [0, 40, 70, 76, 77, 78, 79, 120, 250]


def body_getblock_long(fi: int, text: str, blk: int) -> bool:
    """The same for long lines: a content line of any length (a filler of words up to 250 characters
    followed by symbolic text) is still one blank-prefixed line, whatever its words look like."""
    cfg = hx.DictConfig(True)
    name = ["ABSTRACT", "KEYWORDS", "ASK", "3D"][blk]
    pr = rl.proto(1, cfg)
    n = FILLERS[fi]
    filler = ("word " * 60)[:n]
    full = "first" + chr(10) + filler + text
    e = rl.entry(cfg, "0", "n", "/x", mimetype="text/plain", ea={name: full})
    out = pr.getblock("+" + name, e)
    hx.reach()
    lines = out.split("\r\n")
    hx.require(lines[0] == "+" + name + ":" and out.endswith("\r\n"), "C13:gopherplus-block-header", lambda: repr(out))
    for l in lines[1:-1]:
        hx.require(l.startswith(" "), "C13:gopherplus-content-line-without-leading-blank", lambda: "filler=%d text=%r block=%r" % (n, text, out))
    # C15: the block's lines are exactly the attribute's lines
    hx.require([l[1:] for l in lines[1:-1]] == full.splitlines(), "C15:block-lines-differ-from-attribute-lines", lambda: "filler=%d text=%r block=%r" % (n, text, out))
    return True


def body_http_headers(kind: int, tail: str, outcome: int, head: bool, hk: int = 0) -> bool:
    """HTTP(S)/WAP header block for a request whose path and request headers carry client text (each
    piece tagged with the marker ZQ7 plus a symbolic tail): the status line and every header line are
    server-chosen -- well-formed `Name: value` lines that contain no client text and no stray CR."""
    import urllib.parse

    from pygopherd import GopherExceptions
    from pygopherd.handlers import HandlerMultiplexer as HM
    from pygopherd.protocols import http

    cfg = hx.DictConfig(True)
    hx.silence_logging()
    saved = (urllib.parse.unquote, HM.getHandler, http.time)

    def unquote(x, encoding="utf-8", errors="replace"):
        return "REQTEXT(" + x + ")"

    class H:
        def __init__(self, sel):
            self.e = rl.entry(cfg, "0", "n", sel, mimetype=[None, "text/plain", "image/gif"][outcome - 1], mtime=12345, size=3)

        def getentry(self):
            return self.e

        def prepare(self):
            pass

        def isdir(self):
            return False

        def write(self, w):
            w.write(b"BODY")

    def getHandler(selector, searchrequest, protocol, config, handlerlist=None, vfs=None):
        if outcome == 0:
            raise GopherExceptions.FileNotFound(selector, "no handler found", protocol)
        return H(selector)

    # client request headers: a conditional-GET date that lies in the future (so that a server that
    # honours it answers from the header), a range, the usual identification headers
    hdrs = [[],
            ["If-Modified-Since: Sat, 01 Jan 2050 00:00:00 GMT ZQ7" + tail],
            ["Host: ZQ7" + tail, "User-Agent: ZQ7ua", "Referer: ZQ7ref"],
            ["If-None-Match: ZQ7" + tail, "Range: bytes=0-ZQ7", "Accept: ZQ7acc", "Cookie: ZQ7=c", "Origin: ZQ7o"]][hk]
    urllib.parse.unquote = unquote
    HM.getHandler = getHandler
    http.time = hx.ns(gmtime=lambda t: t, strftime=lambda fmt, g: "DATETAG", time=lambda: 4102444800.0, mktime=lambda t: 0)
    w = hx.ListWriter()
    try:
        req = ("HEAD " if head else "GET ") + ("/wap" if kind == 3 else "") + "/xZQ7" + tail + " HTTP/1.0"
        p = rl.proto(kind, cfg, selector="/x", wfile=w)
        p.request = req
        p.rfile = hx.LineReader([h + chr(13) + chr(10) for h in hdrs] + [chr(13) + chr(10)])
        p.canhandlerequest()
        p.handle()
    finally:
        urllib.parse.unquote, HM.getHandler, http.time = saved
    out = w.gettext()
    hx.reach()
    i = out.find("\r\n\r\n")
    hx.require(i > 0, "C13:http-header-block-unterminated", lambda: repr(out[:200]))
    block = out[:i]
    hx.require("REQTEXT" not in block and "ZQ7" not in block, "C13:request-text-in-http-header", lambda: repr(block))
    lines = block.split("\r\n")
    st = lines[0]
    hx.require(st.startswith("HTTP/1.0 ") and len(st) > 13 and st[9:12].isdigit() and st[12] == " " and all(c.isalpha() or c == " " for c in st[13:]),
               "C13:http-status-line-malformed", lambda: repr(st))
    for l in lines[1:]:
        j = l.find(": ")
        hx.require(j > 0 and all(c.isalpha() or c == "-" for c in l[:j]) and chr(13) not in l and chr(10) not in l, "C13:http-header-line-malformed", lambda: repr(l))
    return True


def body_subject(subj: str, maildir: bool) -> bool:
    """Mail subjects become entry names (menu lines, HTML): whitespace runs collapse to one blank, so no
    CR/LF/TAB survives; an empty subject gets a placeholder."""
    from pygopherd.handlers import mbox

    cfg = hx.DictConfig(True)
    H = mbox.MaildirMessageHandler if maildir else mbox.MBoxMessageHandler
    vfs = hx.ns(stat=lambda s: (0o100644, 0, 0, 1, 0, 0, 1, 0, 0, 0), isreal=lambda: True)
    h = H("/box|/MBOX-MESSAGE/1", "", None, cfg, None, vfs)
    msg = hx.ns(get=lambda k, d=None: subj)
    e = h.getentry(msg)
    hx.reach()
    name = e.getname()
    hx.require(name is not None and name != "", "C13:empty-entry-name-from-subject", lambda: repr(subj))
    for ch in name:
        hx.require(ch != "\r" and ch != "\n" and ch != "\t", "C13:control-character-in-entry-name", lambda: "subject=%r name=%r" % (subj, name))
    return True


TITLES = ["a b c d e f g h i\nj k", "one\r\ntwo", "t\tu  v\n\n\nw x y z 1 2 3 4 5\r6", " lead", "a&amp;b\nc", "x" + " y" * 12 + "\n+ADMIN:\n Admin: forged"]


def body_title(ti: int, sep: int) -> bool:
    """HTML titles become entry names: no CR/LF/TAB survives, however many whitespace runs there are."""
    from pygopherd.handlers import html as htmlmod
    from vk import memvfs as mv

    cfg = dl.config()
    t = TITLES[ti]
    lines = ("<html><head><title>" + t + "</title></head><body>x</body></html>\n")
    data = lines.encode() if sep == 0 else lines.replace("\n", "\r\n").encode()
    vfs = mv.MemVFS(cfg, {"/p.html": mv.File(data)})
    h = htmlmod.HTMLFileTitleHandler("/p.html", "", None, cfg, vfs.stat("/p.html"), vfs)
    hx.require(bool(h.canhandlerequest()), "C13:html-title-handler-not-chosen", "")
    e = h.getentry()
    hx.reach()
    name = e.getname()
    for ch in name:
        hx.require(ch not in "\r\n\t", "C13:control-character-in-entry-name", lambda: "title=%r name=%r" % (t, name))
    return True


def obligations(tier, seed):
    obs = []
    n = 2 if tier == "quick" else 3
    for kind in (2, 3):
        for pos in range(len(POS)):
            obs.append(Ob(id="C13.1-entry[%s,%s]" % (dl.PROTO_NAMES[kind], POS[pos]), body="harness.C13:body_entry", sig="kind: int, pos: int, t: int, p: str",
                          pre=["kind == %d" % kind, "pos == %d" % pos, "0 <= t < %d" % len(TYPES), "len(p) <= %d" % n, ALPH_PRE] + (["chr(10) not in p"] if pos == 2 else []), timeout=300 if tier == "quick" else 1200,
                          desc="%s renderobjinfo/getrenderstr with a symbolic payload as %s, every item type: same element/attribute skeleton as for an inert payload" % (dl.PROTO_NAMES[kind], POS[pos]),
                          bounds="|payload| <= %d over {< > & \" ' CR LF a}, 5 item types (symbolic)" % n,
                          functions=["protocols.http.HTTPProtocol.renderobjinfo/getrenderstr/getimgtag" if kind == 2 else "protocols.wap.WAPProtocol.getrenderstr"]))
        for where in range(5):
            obs.append(Ob(id="C13.1-page[%s,%s]" % (dl.PROTO_NAMES[kind], ["dir-title", "notfound-message", "dir-end", "dir-named-URL:start", "dir-named-URL:end"][where]), body="harness.C13:body_dirpage", sig="kind: int, where: int, p: str",
                          pre=["kind == %d" % kind, "where == %d" % where, "len(p) <= %d" % n, ALPH_PRE], timeout=300 if tier == "quick" else 1200,
                          desc="%s page chrome with a symbolic payload: skeleton unchanged" % dl.PROTO_NAMES[kind], bounds="|payload| <= %d over {< > & \" ' CR LF a}" % n,
                          functions=["renderdirstart/renderdirend/filenotfound"]))
    for slash in (False, True):
        obs.append(Ob(id="C13.1-urlpage[%s]" % ("/URL:" if slash else "URL:"), body="harness.C13:body_urlpage", sig="slash: bool, p: str",
                      pre=["slash == %s" % slash, "len(p) <= 3", "all(c in '<>&' + chr(39) + 'a%3C' for c in p)"], timeout=400 if tier == "quick" else 1200,
                      desc="HTMLURLHandler.write for a URL: selector (which the handler's own filter lets contain < > & '): skeleton unchanged",
                      bounds="|payload| <= 3 over {< > & ' a % 3 C}", functions=["handlers.url.HTMLURLHandler.write"]))
    obs.append(Ob(id="C13.1-waptext", body="harness.C13:body_waptext", sig="l1: str, l2: str", pre=["len(l1) <= 2", "len(l2) <= %d" % (0 if tier == "quick" else 2), "all(c in '<>&' + chr(34) + ' a' for c in l1 + l2)"],
                  timeout=300 if tier == "quick" else 1200, desc="WAP text-to-WML conversion of two symbolic lines: no payload-controlled markup",
                  bounds="2 lines, |l| <= 2 over {< > & \" SPACE a}", functions=["protocols.wap.WAPProtocol.handlerwrite"]))
    for kind in (2, 3):
        for hk in range(4):
            obs.append(Ob(id="C13.2-http-headers[%s,%s]" % (dl.PROTO_NAMES[kind], ["no-headers", "if-modified-since", "host-agent-referer", "match-range-accept-cookie-origin"][hk]), body="harness.C13:body_http_headers",
                          sig="kind: int, tail: str, outcome: int, head: bool, hk: int",
                          pre=["kind == %d" % kind, "hk == %d" % hk, "len(tail) <= 2", "all(c in 'a%:' + chr(13) for c in tail)", "0 <= outcome <= 3"], timeout=400,
                          desc="%s header block for a request whose path and request headers (set %d of: none / If-Modified-Since with a future date / Host, User-Agent, Referer / If-None-Match, Range, Accept, Cookie, Origin) carry marked client text with a symbolic tail (found / not found, HEAD / GET): well-formed status and header lines, no client text in them" % (dl.PROTO_NAMES[kind], hk),
                          bounds="|tail| <= 2 over {a % : CR}; 4 outcomes x HEAD/GET (symbolic)", functions=["protocols.http.HTTPProtocol.handle/headerslurp/filenotfound", "protocols.wap.WAPProtocol.filenotfound/adjustmimetype"]))
    obs.append(Ob(id="C13.5b-html-title", body="harness.C13:body_title", sig="ti: int, sep: int", pre=["0 <= ti < %d" % len(TITLES), "0 <= sep <= 1"], timeout=300,
                  desc="HTML <title> text used as an entry name contains no CR/LF/TAB, for titles with few and with many whitespace runs (which would forge Gopher+ block headers / menu lines)",
                  bounds="%d titles x LF/CRLF files (symbolic index = solver-driven enumeration)" % len(TITLES), functions=["handlers.html.HTMLFileTitleHandler.getentry"]))
    obs.append(Ob(id="C13.5-subject", body="harness.C13:body_subject", sig="subj: str, maildir: bool", pre=["len(subj) <= %d" % (3 if tier == "quick" else 4), "all(c in 'a ' + chr(9) + chr(10) + chr(13) for c in subj)"],
                  timeout=300, desc="mail subjects used as entry names contain no CR/LF/TAB (they would break menu lines) and are never empty",
                  bounds="|subject| <= %d over {a SPACE TAB LF CR}" % (3 if tier == "quick" else 4), functions=["handlers.mbox.MessageHandler.getentry"]))
    for blk in range(4):
        obs.append(Ob(id="C13.4-getblock[%s]" % ["ABSTRACT", "KEYWORDS", "ASK", "3D"][blk], body="harness.C13:body_getblock", sig="text: str, blk: int",
                      pre=["blk == %d" % blk, "len(text) <= %d" % (3 if tier == "quick" else 4), "all(c in '+: a' + chr(13) + chr(10) for c in text)"], timeout=300 if tier == "quick" else 1200,
                      desc="Gopher+ getblock on symbolic attribute text: every content line starts with a blank, no bare CR/LF inside a line",
                      bounds="|text| <= %d over {+ : SPACE a CR LF}" % (3 if tier == "quick" else 4), functions=["protocols.gopherp.GopherPlusProtocol.getblock"]))
    obs.append(Ob(id="C13.4b-getblock-long-lines", body="harness.C13:body_getblock_long", sig="fi: int, text: str, blk: int",
                  pre=["0 <= fi < %d" % len(FILLERS), "len(text) <= 2", "all(c in '+: a' for c in text)", "0 <= blk <= 1"], timeout=300,
                  desc="Gopher+ getblock on a long content line (filler of %r characters + symbolic text): still exactly one blank-prefixed line per attribute line, whatever its length" % (FILLERS,),
                  bounds="9 line lengths around the 78/80-column marks and beyond, |text| <= 2 over {+ : SPACE a} (symbolic)", functions=["protocols.gopherp.GopherPlusProtocol.getblock"]))
    return obs
