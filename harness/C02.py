"""C02 -- protocol autodetection is deterministic, ordered and strict about TLS."""
from __future__ import annotations

import importlib

import vk.hx as hx
from vk.driver import Ob

META = {
    "level": "other",
    "technique": "AST->z3 regular-language translation of every protocol's request-shape test (unbounded length), equivalence/emptiness/totality queries in z3, translator validated on solver-chosen witnesses; bounded symbolic execution (CrossHair) for ordering, WAP header detection and the TLS sniff",
    "claim": "The request-shape tests of all shipped protocol classes are translated from their AST into regular languages over the raw first line; "
    "z3 decides, for strings of any length, that each language equals the documented shape intersected with the class's TLS-ness, that no line "
    "makes a test raise, and that with the shipped list every line is claimed under TLS and under plaintext. First-match ordering, the WAP header "
    "clause and the 0x16 sniff are decided by CrossHair over the real functions within stated bounds.",
    "trusted": "z3's regex solver; the pyre translator (validated on every run against the real methods on solver-chosen members/non-members of every language and difference); CrossHair for the bounded obligations.",
    "explanation": "Regular-language equivalence checking of real code (unbounded length) + bounded symbolic execution.",
    "assumptions": [
        "z3's character sort ends at U+2FFFF; the predicates distinguish only ASCII and whitespace characters",
        "the kernel's MSG_PEEK semantics and the TLS handshake itself are outside the claim",
    ],
}


def _cls(path):
    mod, name = path.rsplit(".", 1)
    return getattr(importlib.import_module(mod), name)


def _shipped_list():
    """Protocol classes of the shipped configuration, in configured order (dotted paths)."""
    cfg = hx.load_config()
    from pygopherd.protocols import ProtocolMultiplexer  # noqa: F401  (imports every protocol module)
    import pygopherd.protocols as P

    lst = eval(cfg.get("protocols.ProtocolMultiplexer", "protocols"), vars(ProtocolMultiplexer))
    return ["%s.%s" % (c.__module__, c.__qualname__) for c in lst]


def translate(path, tls):
    from vk import pyre

    cls = _cls(path)
    ev = pyre.Ev(cls, tls=tls, config=hx.load_config(), opaque_calls=("slashnormalize",), env_calls=("headerslurp",))
    res = ev.run_protocol("canhandlerequest")
    return res, ev


def real_verdict(path, tls, request):
    """Runs the real __init__ + canhandlerequest; returns True/False/'raise:<Exc>'/'env'."""
    cls = _cls(path)
    cfg = hx.DictConfig(True)

    class NoHeaders(Exception):
        pass

    class R:
        def readline(self):
            raise NoHeaders()

    try:
        p = cls(request, hx.make_server(cfg), hx.make_rh(tls), R(), hx.ListWriter(), cfg)
        return bool(p.canhandlerequest())
    except NoHeaders:
        return "env"
    except Exception as e:
        return "raise:" + type(e).__name__


def replay_shape(path: str, tls: bool, request: str) -> bool:
    """Replay: the real method against the documented shape (plain predicate)."""
    from spec import shapes

    kind, secure = shapes.CLASSES[path]
    want = (secure == tls) and shapes.pred(kind, hx.load_config().get("protocols.wap.WAPProtocol", "waptop"))(request)
    got = real_verdict(path, tls, request)
    if got == "env":
        # WAP: decided by headers; documented only for HTTP-shaped requests outside the prefix
        hx.require(kind == "wap" and shapes.p_http(request) and not want, "C02:shape:%s:env-decided-outside-http" % kind, lambda: repr(request))
        return True
    hx.require(not (isinstance(got, str) and got.startswith("raise")), "C02:shape-test-raises:%s" % path.rsplit(".", 1)[1], lambda: "%r -> %s" % (request, got))
    hx.require(got == want, "C02:shape-differs:%s" % path.rsplit(".", 1)[1], lambda: "request=%r tls=%s real=%s documented=%s" % (request, tls, got, want))
    return True


def fn_shapes(paths=None, nwit=25):
    """C02.1/.2: L_P == S_P (two emptiness queries each), L_raise == empty, partition sanity, and
    validation of the translation on witnesses of every language and difference."""
    from spec import shapes
    from vk import pyre
    from vk.pyre import ALL, EMPTY, C, I, U

    cfg = hx.load_config()
    waptop = cfg.get("protocols.wap.WAPProtocol", "waptop")
    paths = paths or sorted(set(_shipped_list()) | set(shapes.CLASSES))
    viol, samples, fns = [], [], []
    nq = 0
    checked = 0
    for path in paths:
        if path not in shapes.CLASSES:
            return {"status": "inconclusive", "detail": "no documented shape for protocol class %s" % path}
        kind, secure = shapes.CLASSES[path]
        for tls in (False, True):
            try:
                res, ev = translate(path, tls)
            except pyre.Unsupported as e:
                return {"status": "inconclusive", "detail": "Unsupported in %s (tls=%s): %s" % (path, tls, e), "functions": fns}
            for f in ev.functions:
                if f not in fns:
                    fns.append(f)
            S = shapes.shape(kind, waptop) if secure == tls else EMPTY
            Lt, Lf, Lr, Le = res["True"], res["False"], res["raise"], res["env"]
            # partition sanity: the four languages cover everything
            empty, w = pyre.is_empty(C(U(Lt, Lf, Lr, Le)))
            if not empty:
                return {"status": "inconclusive", "detail": "translator error: languages of %s do not cover %r" % (path, w)}
            name = path.rsplit(".", 1)[1]
            # translation validation on witnesses
            for lang, expect in ((Lt, True), (Lf, False), (Le, "env"), (I(Lt, C(S)), True), (I(S, C(Lt), C(Le)), False), (Lr, "raise")):
                for wv in pyre.witnesses(lang, nwit if expect in (True, False) else 5):
                    got = real_verdict(path, tls, wv)
                    checked += 1
                    ok = (got == expect) or (expect == "raise" and isinstance(got, str) and got.startswith("raise"))
                    if not ok:
                        return {"status": "inconclusive", "detail": "translator validation failed for %s tls=%s on %r: translated=%s real=%s" % (name, tls, wv, expect, got)}
            # obligations
            for lang, what in ((I(Lt, C(S)), "claims-outside-documented-shape"), (I(S, C(Lt), C(Le)), "rejects-documented-shape"), (Lr, "raises")):
                empty, w = pyre.is_empty(lang)
                nq += 1
                if not empty:
                    viol.append({"body": "harness.C02:replay_shape", "kwargs": {"path": path, "tls": tls, "request": w},
                                 "detail": "%s tls=%s %s: %r" % (name, tls, what, w)})
            if kind == "wap" and secure == tls:
                # env-decided region is exactly HTTP-shaped minus the prefix
                for lang in (I(Le, C(shapes.S_HTTP)), I(shapes.S_HTTP, C(Lt), C(Le))):
                    empty, w = pyre.is_empty(lang)
                    nq += 1
                    if not empty:
                        viol.append({"body": "harness.C02:replay_shape", "kwargs": {"path": path, "tls": tls, "request": w}, "detail": "WAP header-decided region wrong: %r" % w})
            samples.append({"class": name, "tls": tls, "member": (pyre.witnesses(Lt, 1) or [None])[0]})
    st = pyre.stats()
    out = {"queries": st["n"], "solver_s": round(st["s"], 2), "functions": fns, "samples": samples[:8], "twin": "ok",
           "twin_witness": "every non-empty language has a witness accepted by the real method (%d witnesses validated)" % checked}
    if viol:
        out.update(status="violation", violations=viol, detail="; ".join(v["detail"] for v in viol[:3]))
    else:
        out.update(status="discharged", detail="%d classes x 2 TLS values: language == documented shape, no raising input (%d regex queries, %d witnesses validated against the real methods)" % (len(paths), nq, checked))
    return out


def replay_first_match(tls: bool, request: str, headers_wap: bool) -> bool:
    """Real getProtocol on the shipped list vs. the first documented shape in configured order."""
    from pygopherd.protocols import ProtocolMultiplexer
    from spec import shapes

    cfg = hx.DictConfig(True)
    lines = ["Accept: text/html, text/vnd.wap.wml\r\n", "x-wap-profile: y\r\n", "\r\n"] if headers_wap else ["\r\n"]
    rh = hx.make_rh(tls)
    try:
        p = ProtocolMultiplexer.getProtocol(request, hx.make_server(cfg), rh, hx.BytesReader("".join(lines).encode()), hx.ListWriter(), cfg)
    except Exception as e:
        raise hx.Violation("C02:detection-raises:%s" % type(e).__name__, repr(request))
    waptop = hx.load_config().get("protocols.wap.WAPProtocol", "waptop")
    want = None
    for path in _shipped_list():
        kind, secure = shapes.CLASSES[path]
        if secure != tls:
            continue
        if kind == "wap":
            if shapes.p_wap_prefix(request, waptop) or (shapes.p_http(request) and headers_wap):
                want = path
                break
            continue
        if shapes.pred(kind)(request):
            want = path
            break
    got = None if p is None else "%s.%s" % (type(p).__module__, type(p).__qualname__)
    hx.require(got is not None, "C02:line-unclaimed", lambda: "tls=%s request=%r" % (tls, request))
    hx.require(got == want, "C02:wrong-claimant", lambda: "tls=%s request=%r claimed by %s, documented first match %s" % (tls, request, got, want))
    return True


def fn_totality():
    """C02.3: with the shipped list every line is claimed under TLS and under plaintext and no class
    claims under the wrong TLS-ness.  (That the claimant is the *first* matching class is C02.4;
    that each class matches exactly its documented shape is C02.1.)"""
    from spec import shapes
    from vk import pyre
    from vk.pyre import ALL, EMPTY, C, I, U

    cfg = hx.load_config()
    waptop = cfg.get("protocols.wap.WAPProtocol", "waptop")
    order = _shipped_list()
    viol, fns, samples = [], [], []
    for tls in (False, True):
        langs = []
        for path in order:
            try:
                res, ev = translate(path, tls)
            except pyre.Unsupported as e:
                return {"status": "inconclusive", "detail": "Unsupported in %s: %s" % (path, e)}
            fns += [f for f in ev.functions if f not in fns]
            kind, secure = shapes.CLASSES.get(path, (None, None))
            if kind is None:
                return {"status": "inconclusive", "detail": "no documented shape for %s" % path}
            langs.append((path, kind, secure, res))
            if secure != tls:
                empty, w = pyre.is_empty(U(res["True"], res["env"]))
                if not empty:
                    viol.append({"body": "harness.C02:replay_first_match", "kwargs": {"tls": tls, "request": w, "headers_wap": True},
                                 "detail": "%s claims %r under tls=%s" % (path, w, tls)})
        for hdr in (False, True):  # answer of the WAP header clause
            # a line is unclaimed iff every class says False or raises; the languages of one class
            # are disjoint by construction (path conditions) and cover Sigma* (checked in C02.1)
            unclaimed = ALL
            for path, kind, secure, res in langs:
                notmine = U(res["False"], res["raise"]) if hdr else U(res["False"], res["raise"], res["env"])
                unclaimed = I(unclaimed, notmine)
            empty, w = pyre.is_empty(unclaimed)
            if not empty:
                viol.append({"body": "harness.C02:replay_first_match", "kwargs": {"tls": tls, "request": w, "headers_wap": hdr},
                             "detail": "no class claims %r (tls=%s)" % (w, tls)})
            samples.append({"tls": tls, "wap_headers": hdr, "classes": [p.rsplit(".", 1)[1] for p, _, _, _ in langs]})
    st = pyre.stats()
    out = {"queries": st["n"], "solver_s": round(st["s"], 2), "functions": fns, "samples": samples, "twin": "n/a"}
    # de-duplicate replays
    uniq = {}
    for v in viol:
        uniq[repr(v["kwargs"])] = v
    viol = list(uniq.values())
    if viol:
        out.update(status="violation", violations=viol, detail="; ".join(v["detail"] for v in viol[:3]))
    else:
        out.update(status="discharged", detail="shipped list %s: every line (any length) is claimed under TLS and under plaintext; no class claims under the wrong TLS-ness"
                   % [p.rsplit(".", 1)[1] for p in order])
    return out


# ------------------------------------------------------------------ bounded symbolic execution obligations


def body_first_match(answers: list, tls: bool) -> bool:
    """Real getProtocol over stub classes with symbolic verdicts: the first class (in configured
    order) whose test is true answers; every earlier class was asked exactly once, no later one."""
    from pygopherd.protocols import ProtocolMultiplexer as PM

    asked = []
    classes = []
    for i in range(len(answers)):
        def mk(i=i):
            class Stub:
                idx = i

                def __init__(self, request, server, requesthandler, rfile, wfile, config):
                    self.request = request

                def canhandlerequest(self):
                    asked.append(self.idx)
                    return answers[self.idx]
            return Stub
        classes.append(mk())
    cfg = hx.DictConfig()
    cfg.set("protocols.ProtocolMultiplexer", "protocols", "_vk_classes")
    PM._vk_classes = classes
    try:
        p = PM.getProtocol("whatever\r\n", hx.make_server(cfg), hx.make_rh(tls), None, None, cfg)
    finally:
        del PM._vk_classes
    hx.reach()
    first = -1
    for i in range(len(answers)):
        if answers[i]:
            first = i
            break
    if first < 0:
        hx.require(p is None, "C02:claimant-without-match", lambda: "answers=%r" % (answers,))
        hx.require(asked == list(range(len(answers))), "C02:not-every-class-asked", lambda: "asked=%r" % (asked,))
        return True
    hx.require(p is not None and type(p).idx == first, "C02:not-first-match", lambda: "answers=%r got=%r" % (answers, None if p is None else type(p).idx))
    hx.require(asked == list(range(first + 1)), "C02:asked-out-of-order", lambda: "asked=%r first=%d" % (asked, first))
    return True


ACC_NAMES = ["Accept", "accept", "ACCEPT", "X-Accept", None]
ACC_SEPS = ["", " "]
ACC_VALUES = ["text/vnd.wap.wml", "text/html, text/vnd.wap.wml", "text/html,text/vnd.wap.wml;q=0.5", "text/html", "xtext/vnd.wap.wml", "*/*", ""]
PROFILES = [None, "x-wap-profile: http://x/y.xml", "X-Wap-Profile:y", "X-UP-DEVCAP-MAX-PDU: 1400", "x-other: 1", "x-wap-profile"]


def _doc_wap_headers(lines):
    """Documented auto-detection clause, written independently: an Accept header whose value (the text
    after the colon, as sent) lists text/vnd.wap.wml after a comma or blank, plus an x-wap-profile or
    x-up-devcap-max-pdu header.  Header names are case-insensitive; the block ends at the first blank line."""
    hdr = {}
    for raw in lines:
        l = raw.strip()
        if not l:
            break
        if ":" in l:
            name, value = l.split(":", 1)
            hdr[name.lower()] = value
    acc = hdr.get("accept")
    if acc is None:
        return False
    if ", text/vnd.wap.wml" not in acc and " text/vnd.wap.wml" not in acc and ",text/vnd.wap.wml" not in acc:
        return False
    return "x-wap-profile" in hdr or "x-up-devcap-max-pdu" in hdr


def body_wap_headers(an: int, sep: int, av: int, pr: int, order: bool, blank_first: bool, prefix: bool) -> bool:
    from pygopherd.protocols import http, wap

    lines = []
    if ACC_NAMES[an] is not None:
        lines.append(ACC_NAMES[an] + ":" + ACC_SEPS[sep] + ACC_VALUES[av] + "\r\n")
    if PROFILES[pr] is not None:
        lines.append(PROFILES[pr] + "\r\n")
    if order:
        lines.reverse()
    if blank_first:
        lines.insert(0, "\r\n")
    lines.append("\r\n")
    lines.append("BODY-MUST-NOT-BE-READ\r\n")
    cfg = hx.DictConfig(True)
    rf = hx.LineReader(lines)
    rh = hx.make_rh(False)
    req = "GET " + ("/wap/x" if prefix else "/x") + " HTTP/1.0\r\n"
    p = wap.WAPProtocol(req, hx.make_server(cfg), rh, rf, hx.ListWriter(), cfg)
    got = bool(p.canhandlerequest())
    hx.reach()
    want = prefix or _doc_wap_headers(lines)
    hx.require(got == want, "C02:wap-header-detection-differs", lambda: "headers=%r prefix=%s real=%s documented=%s" % (lines, prefix, got, want))
    if not prefix:
        # the header block was consumed exactly up to its terminating blank line, and is cached on the connection
        nblock = lines.index("\r\n") + 1
        hx.require(rf.i == nblock, "C02:header-block-overread", lambda: "read %d lines of %r" % (rf.i, lines))
        p2 = http.HTTPProtocol(req, hx.make_server(cfg), rh, rf, hx.ListWriter(), cfg)
        p2.canhandlerequest()
        p2.headerslurp()
        hx.require(rf.i == nblock, "C02:headers-slurped-twice", lambda: "second protocol object read %d more lines" % (rf.i - nblock))
        hx.require(p2.httpheaders == p.httpheaders, "C02:header-cache-differs", lambda: "%r vs %r" % (p2.httpheaders, p.httpheaders))
        # a later, different connection (no WAP headers at all) is judged by its own header block only
        rh3 = hx.make_rh(False)
        p3 = wap.WAPProtocol(req, hx.make_server(cfg), rh3, hx.LineReader(["Host: x\r\n", "\r\n"]), hx.ListWriter(), cfg)
        hx.require(not p3.canhandlerequest(), "C02:detection-depends-on-earlier-connection", lambda: "after headers %r a header-less connection was claimed by WAP" % (lines,))
    else:
        hx.require(rf.i == 0, "C02:headers-read-for-prefixed-request", lambda: "read %d lines" % rf.i)
    return True


def body_sniff(first: int, nbytes: int, has_ctx: bool) -> bool:
    """BaseServer.wrap_socket: TLS iff a context is configured and the peeked byte is 0x16; the byte
    is only peeked (recv called once with (1, MSG_PEEK))."""
    import socket

    from pygopherd import server as srvmod

    calls = []

    class Sock:
        def recv(self, n, flags=0):
            calls.append((n, flags))
            return bytes([first]) if nbytes else b""

    wrapped = []

    class Ctx:
        def wrap_socket(self, sock, server_side=False, **kw):
            wrapped.append((sock, server_side))
            return ("TLS", sock)

    sock = Sock()
    srv = hx.ns(context=Ctx() if has_ctx else None)
    r = srvmod.BaseServer.wrap_socket(srv, sock)
    hx.reach()
    want_tls = has_ctx and nbytes == 1 and first == 0x16
    if want_tls:
        hx.require(r == ("TLS", sock) and wrapped == [(sock, True)], "C02:tls-connection-not-wrapped", lambda: "first=%d" % first)
    else:
        hx.require(r is sock and not wrapped, "C02:plaintext-connection-wrapped", lambda: "first=%d nbytes=%d ctx=%s" % (first, nbytes, has_ctx))
    for (n, flags) in calls:
        hx.require(flags & socket.MSG_PEEK, "C02:sniff-consumes-request-bytes", lambda: "recv%r" % ((n, flags),))
        hx.require(n == 1, "C02:sniff-reads-more-than-one-byte", lambda: "recv%r" % ((n, flags),))
    if has_ctx:
        hx.require(len(calls) == 1, "C02:sniff-call-count", lambda: "calls=%r" % (calls,))
    return True


def obligations(tier, seed):
    return [
        Ob(id="C02.1-shapes", body="harness.C02:fn_shapes", kind="fn", engine="RE", twin=False, timeout=900,
           kwargs={"nwit": 12 if tier == "quick" else 60},
           desc="for every protocol class and TLS value: language of canhandlerequest == documented shape x TLS-ness; no input raises",
           bounds="request lines of any length over z3's character sort; Python subset of vk/pyre.py"),
        Ob(id="C02.3-totality-order", body="harness.C02:fn_totality", kind="fn", engine="RE", twin=False, timeout=900,
           desc="shipped list: every line is claimed by some class under TLS and under plaintext; no class claims under the wrong TLS-ness",
           bounds="request lines of any length; WAP header clause as a boolean parameter (both values)"),
        Ob(id="C02.4-first-match", body="harness.C02:body_first_match", sig="answers: list[bool], tls: bool", pre=["len(answers) <= 6"], timeout=120,
           desc="real getProtocol over stub classes with symbolic verdicts: the first matching class in configured order answers, later ones are never asked",
           bounds="protocol lists of length <= 6 with symbolic verdicts", functions=["pygopherd.protocols.ProtocolMultiplexer.getProtocol"]),
    ] + [
        Ob(id="C02.6-wap-headers[accept=%s]" % ACC_NAMES[a], body="harness.C02:body_wap_headers", sig="an: int, sep: int, av: int, pr: int, order: bool, blank_first: bool, prefix: bool",
           pre=["an == %d" % a, "0 <= sep < %d" % len(ACC_SEPS), "0 <= av < %d" % len(ACC_VALUES), "0 <= pr < %d" % len(PROFILES)], timeout=300,
           desc="real WAPProtocol.canhandlerequest + headerslurp on header blocks assembled from symbolic choices: verdict equals the documented clause; "
                "the block is read once, up to its blank line, and cached on the connection",
           bounds="Accept spelling %r x 2 separators x 7 values x 6 profile headers x order x leading blank x prefix (symbolic indices = solver-driven enumeration)" % (ACC_NAMES[a],),
           functions=["protocols.wap.WAPProtocol.canhandlerequest", "protocols.http.HTTPProtocol.headerslurp"])
        for a in range(len(ACC_NAMES))
    ] + [
        Ob(id="C02.7-tls-sniff", body="harness.C02:body_sniff", sig="first: int, nbytes: int, has_ctx: bool", pre=["0 <= first <= 255", "0 <= nbytes <= 1"], timeout=60,
           desc="BaseServer.wrap_socket wraps iff a TLS context exists and the peeked first byte is 0x16; recv is called once with (1, MSG_PEEK)",
           bounds="all 256 byte values (symbolic), empty read, context present/absent", functions=["pygopherd.server.BaseServer.wrap_socket"]),
    ]
