"""Shared helpers for the rendering obligations (C05, C06, C13, C15)."""
from __future__ import annotations

import vk.hx as hx
from harness import dirlib as dl


def entry(cfg, typ, name, selector, host=None, port=None, mimetype=None, gopherp=1, size=None, mtime=None, ea=None):
    from pygopherd import gopherentry

    e = gopherentry.GopherEntry(selector, cfg)
    e.type = typ
    e.name = name
    e.host = host
    e.port = port
    e.mimetype = mimetype
    e.gopherpsupport = gopherp
    e.size = size
    e.mtime = mtime
    if ea:
        e.ea = dict(ea)
    return e


class QuoteStub:
    """Tagging stand-in for urllib.parse.quote/unquote: quote(x) returns a fresh token over the
    request-safe alphabet and remembers (x, kwargs); unquote maps a remembered token back (anything
    else to itself).  The stdlib contract it stands for (unquote(quote(x)) == x; quote's output
    alphabet) is validated on the real functions in C05.2."""

    def __init__(self):
        self.q = []  # (arg, kwargs, token)
        self.u = []  # (arg, kwargs)

    def quote(self, s, safe="/", encoding=None, errors=None):
        tok = "/Q%dq" % len(self.q)
        from vk.symbytes import SymBytes

        if isinstance(s, (bytes, SymBytes)):
            self.q.append((s, {"safe": safe, "encoding": encoding, "errors": errors, "bytes": True}, tok))
        else:
            self.q.append((s, {"safe": safe, "encoding": encoding, "errors": errors}, tok))
        return tok

    def unquote(self, s, encoding="utf-8", errors="replace"):
        self.u.append((s, {"encoding": encoding, "errors": errors}))
        for (arg, kw, tok) in self.q:
            if s == tok:
                if kw.get("bytes"):
                    from vk.symbytes import text_of

                    return text_of(arg)
                return arg
        return s

    def install(self):
        import urllib.parse

        self.saved = (urllib.parse.quote, urllib.parse.unquote)
        urllib.parse.quote = self.quote
        urllib.parse.unquote = self.unquote

    def uninstall(self):
        import urllib.parse

        urllib.parse.quote, urllib.parse.unquote = self.saved


def skeleton(s: str) -> str:
    """element/attribute skeleton of a page: the subsequence of < > and double quotes"""
    out = ""
    for c in s:
        if c == "<" or c == ">" or c == '"':
            out = out + c
    return out


def proto(kind, cfg, selector="/dir", wfile=None):
    return dl.make_protocol(kind, selector, cfg, wfile if wfile is not None else hx.ListWriter())


# ------------------------------------------------------------------ independent link extractors (written from the wire formats)


def extract(kind, text):
    """Returns (type_or_None, display_name, target) from one rendered entry.
    kinds: 0 gopher, 1/6 gopher+ (not used), 2 http, 3 wap, 4 gemini, 5 spartan"""
    if kind == 0:
        line = text[:-2] if text.endswith("\r\n") else text
        f = line.split("\t")
        return (f[0][0:1], f[0][1:], (f[1], f[2], f[3]) if len(f) > 3 else None)
    if kind == 2:
        name = _between(text, "<TT>", "</TT>")
        href = _between(text, '<A HREF="', '"') if '<A HREF="' in text else (_between(text, 'ACTION="', '"') if 'ACTION="' in text else None)
        return (None, unescape(name), href)
    if kind == 3:
        if "<a " in text:
            href = _between(text, 'href="', '"')
            name = _between(text[text.index("<a "):], ">", "</a>")
        else:
            href = _between(text, '<go method="get" href="', '"') if "<go " in text else None
            name = text[: text.index("<br/>")]
        return (None, unescape(name), href)
    if kind in (4, 5):
        line = text[:-1] if text.endswith("\n") else text
        if line.startswith("=> ") or line.startswith("=: "):
            rest = line[3:]
            url, _, desc = rest.partition(" ")
            return ("7" if line.startswith("=:") else None, desc, url)
        return ("i", line, None)
    raise ValueError(kind)


def _between(s, a, b):
    i = s.index(a) + len(a)
    j = s.index(b, i)
    return s[i:j]


def unescape(s):
    return s.replace("&lt;", "<").replace("&gt;", ">").replace("&quot;", '"').replace("&#x27;", "'").replace("&amp;", "&")


def client_request(kind, target, search=None):
    """What a client sends to follow `target` (as extracted from a listing) with protocol `kind`."""
    if kind == 0:
        return target + ("\t" + search if search else "") + "\r\n", False
    if kind in (1, 6):
        return target + "\t" + (search + "\t" if search else "") + "+\r\n", False
    if kind in (2, 3):
        return "GET " + target + ("?searchrequest=" + search if search else "") + " HTTP/1.0\r\n", False
    if kind == 4:
        return "gemini://srv.example" + target + ("?" + search if search else "") + "\r\n", True
    if kind == 5:
        return "srv.example " + target + " 0\r\n", False
    raise ValueError(kind)


def follow(kind, request, tls, cfg, body=b""):
    """Run the real request path (protocol detection + handle) with a recording handler layer.
    Returns [(selector, searchrequest)] as handed to handler selection, and the protocol class name."""
    from pygopherd import GopherExceptions
    from pygopherd.handlers import HandlerMultiplexer as HM
    from pygopherd.protocols import ProtocolMultiplexer as PM

    seen = []

    def getHandler(selector, searchrequest, protocol, config, handlerlist=None, vfs=None):
        seen.append((selector, searchrequest))
        raise GopherExceptions.FileNotFound(selector, "stub", protocol)

    w = hx.ListWriter()
    rf = hx.LineReader([]) if not body else hx.BytesReader(body)
    p = PM.getProtocol(request, hx.make_server(cfg), hx.make_rh(tls), rf, w, cfg)
    saved = HM.getHandler
    HM.getHandler = getHandler
    try:
        p.handle()
    finally:
        HM.getHandler = saved
    return seen, type(p).__name__
