"""Shared helpers for the rendering obligations (C05, C06, C13, C15)."""
from __future__ import annotations

import vk.hx as hx
from harness import dirlib as dl


def entry(cfg, typ, name, selector, host=None, port=None, mimetype=None, gopherp=1, size=None, mtime=None, ea=None):
    from pygopherd import gopherentry

    e = gopherentry.GopherEntry(selector, cfg)
    e.type = typ
    e.name = name
    e.host = host
    e.port = port
    e.mimetype = mimetype
    e.gopherpsupport = gopherp
    e.size = size
    e.mtime = mtime
    if ea:
        e.ea = dict(ea)
    return e


class QuoteStub:
    """Tagging stand-in for urllib.parse.quote/unquote: quote(x) returns a fresh token over the
    request-safe alphabet and remembers (x, kwargs); unquote maps a remembered token back (anything
    else to itself).  The stdlib contract it stands for (unquote(quote(x)) == x; quote's output
    alphabet) is validated on the real functions in C05.2."""

    def __init__(self):
        self.q = []  # (arg, kwargs, token)
        self.u = []  # (arg, kwargs)

    def quote(self, s, safe="/", encoding=None, errors=None):
        tok = "Q%dq" % len(self.q)
        if isinstance(s, bytes):
            self.q.append((s, {"safe": safe, "encoding": encoding, "errors": errors, "bytes": True}, tok))
        else:
            self.q.append((s, {"safe": safe, "encoding": encoding, "errors": errors}, tok))
        return tok

    def unquote(self, s, encoding="utf-8", errors="replace"):
        self.u.append((s, {"encoding": encoding, "errors": errors}))
        for (arg, kw, tok) in self.q:
            if s == tok:
                if kw.get("bytes"):
                    return arg.decode("utf-8", "surrogateescape")
                return arg
        return s

    def install(self):
        import urllib.parse

        self.saved = (urllib.parse.quote, urllib.parse.unquote)
        urllib.parse.quote = self.quote
        urllib.parse.unquote = self.unquote

    def uninstall(self):
        import urllib.parse

        urllib.parse.quote, urllib.parse.unquote = self.saved


def skeleton(s: str) -> str:
    """element/attribute skeleton of a page: the subsequence of < > and double quotes"""
    out = ""
    for c in s:
        if c == "<" or c == ">" or c == '"':
            out = out + c
    return out


def proto(kind, cfg, selector="/dir", wfile=None):
    return dl.make_protocol(kind, selector, cfg, wfile if wfile is not None else hx.ListWriter())
