"""C05 -- listings only advertise what the server will serve (link closure)."""
from __future__ import annotations

import vk.hx as hx
from harness import dirlib as dl
from harness import renderlib as rl
from vk import memvfs as mv
from vk.driver import Ob

META = {
    "level": "other",
    "technique": "bounded symbolic execution (CrossHair/z3) of render -> extract -> request -> parse round trips through the real renderers and the real request path with tagging codec stubs; exhaustive per-byte validation of the real quote/unquote contract; closure of listed selectors under handler selection over an in-memory VFS",
    "claim": "The property factors into (a) what a listing prints for a local entry, sent back in the same protocol's request syntax, reaches handler selection "
    "as exactly the entry's selector, and (b) the listed entry was produced by asking the handler chain about that very selector. (a) is decided for "
    "every protocol on symbolic selectors containing spaces, reserved URL characters and surrogate-escaped bytes with quote/unquote as tagging stubs "
    "(which string is encoded, with which error handler, that exactly the token is decoded once, and what splitting/prefixing happens around it); the "
    "stdlib contract behind the stubs is validated exhaustively per byte on the real functions. (b) is decided by executing the real directory, "
    "gophermap, link-file and mailbox listings over an in-memory site and requesting every advertised local selector from the real handler chain.",
    "trusted": "CrossHair/z3; the tagging QuoteStub (contract validated); MemVFS.",
    "explanation": "Round-trip symbolic execution with tagging stubs + closure check over the in-memory site.",
    "assumptions": [
        "Gopher-family selectors contain no TAB/CR/LF and no trailing blank (the property's own restriction); URL protocols: any characters",
        "entries whose selector a link file or gophermap author overrides point where the author says; only server-generated selectors are required to resolve",
        "crawling a concrete site is outside this family; closure is shown per listing kind on an in-memory site with symbolic names",
    ],
}

ALPH = "a %?#|\"" + "\udcff"
ALPH_PRE = "all(c in 'a %?#|' + chr(34) + chr(0xdcff) for c in tail)"
TYPES = ["0", "1", "7", "h", "9"]


def body_roundtrip(kind: int, t: int, tail: str, name: str, search: bool, oddprefix: bool = False) -> bool:
    """render_P(entry) -> link -> client's request -> real detection + handle -> handler selection."""
    cfg = hx.DictConfig(True)
    if oddprefix:
        # a WAP prefix that also occurs inside (quoted) selectors: it must be removed from the front only
        cfg.set("protocols.wap.WAPProtocol", "waptop", "/Q")
    sel = "/d/" + tail
    if tail.endswith(" ") or tail == "" or tail.endswith("/"):
        return True  # not a canonical selector / not expressible (trailing blank)
    if kind in (0, 1, 6) and ("\t" in tail or "\r" in tail or "\n" in tail):
        return True
    typ = TYPES[t]
    e = rl.entry(cfg, typ, name if name else "n", sel, mimetype="text/plain")
    hx.silence_logging()
    q = rl.QuoteStub()
    q.install()
    try:
        pr = rl.proto(kind, cfg)
        if kind in (2, 3):
            pr.iconmapping = {}
            pr.entry = rl.entry(cfg, "1", "dir", "/d", mimetype="application/gopher-menu")
            if kind == 3:
                pr.renderdirstart(pr.entry)
        if kind in (1, 6):
            pr.handlemethod = "documentonly"
        text = pr.renderobjinfo(e)
        ekind = 0 if kind in (1, 6) else kind
        if ekind == 0 and text.endswith("\t+\r\n"):
            text = text[:-4] + "\r\n"
        typ_x, name_x, target = rl.extract(ekind, text)
        if ekind == 0:
            target = target[0]
        hx.require(target is not None, "C05:no-link-rendered:%s" % dl.PROTO_NAMES[kind], lambda: repr(text))
        srch = "q" if (search and kind != 5) else None
        if kind == 4 and typ == "7":
            # Gemini search items: link -> input prompt (status 10) -> submit -> redirect (status 30) -> follow
            hx.require(target.startswith("/GEMINI-QUERY"), "C05:gemini-search-link", lambda: repr(text))
            w1 = hx.ListWriter()
            p1 = dl.make_protocol(4, "/x", cfg, w1)
            p1.request = "gemini://srv.example" + target + "\r\n"
            p1.handle()
            hx.require(w1.gettext().startswith("10 "), "C05:gemini-search-prompt-missing", lambda: repr(w1.gettext()))
            w2 = hx.ListWriter()
            p2 = dl.make_protocol(4, "/x", cfg, w2)
            p2.request = "gemini://srv.example" + target + "?q\r\n"
            p2.handle()
            red = w2.gettext()
            hx.require(red.startswith("30 ") and red.endswith("\r\n"), "C05:gemini-search-redirect-missing", lambda: repr(red))
            loc = red[3:-2]
            hx.require(loc.endswith("?q"), "C05:gemini-search-redirect-loses-query", lambda: repr(red))
            target = loc[:-2]
            srch = "q"
        if oddprefix and kind == 3:
            hx.require(target.startswith("/Q/Q"), "C05:wap-prefix-not-prepended", lambda: repr(text))
        req, tls = rl.client_request(kind, target, srch)
        try:
            seen, pname = rl.follow(kind, req, tls, cfg)
        except Exception as ex:
            raise hx.Violation("C05:following-the-link-raises:%s:%s" % (dl.PROTO_NAMES[kind], type(ex).__name__), "entry selector=%r request=%r: %r" % (sel, req, ex))
    finally:
        q.uninstall()
    hx.reach()
    hx.require(len(seen) == 1, "C05:link-not-resolved-through-handler-selection:%s" % dl.PROTO_NAMES[kind], lambda: "request=%r seen=%r proto=%s" % (req, seen, pname))
    hx.require(seen[0][0] == sel, "C05:link-does-not-lead-back-to-the-entry:%s" % dl.PROTO_NAMES[kind],
               lambda: "entry selector=%r rendered=%r request=%r reached handler selection as %r (%s)" % (sel, text, req, seen[0][0], pname))
    # codec wiring
    for (arg, kw, tok) in q.q:
        if kw.get("bytes"):
            continue
        hx.require(kw.get("errors") == "surrogateescape", "C05:quote-error-handler", lambda: "quote(%r, %r)" % (arg, kw))
    for (arg, kw) in q.u:
        hx.require(kw.get("errors") == "surrogateescape", "C05:unquote-error-handler", lambda: "unquote(%r, %r)" % (arg, kw))
    return True


def fn_codec_contract():
    """The stdlib contract behind QuoteStub, on the REAL functions: for every byte value b (as a
    surrogate-escaped or decoded character, alone and next to the characters that matter to the request
    parsers) unquote(quote(x)) == x with errors=surrogateescape, and quote's output uses only
    unreserved characters, '/' and %XX -- so no request parser can split, strip or prefix-match inside it."""
    import re
    import urllib.parse as up

    safe = re.compile(r"^(?:[A-Za-z0-9_.~/-]|%[0-9A-F]{2})*$")
    n = 0
    crit = [" ", "%", "?", "#", "|", '"', "/", "+", "&", "=", "\t", "\r", "\n", "\\", "\x00"]
    chars = [bytes([b]).decode("utf-8", "surrogateescape") for b in range(256)] + ["é", "€", "\U0001f600"]
    for c in chars:
        for ctx in [""] + crit:
            for x in (c + ctx, ctx + c, "/" + ctx + c + ctx):
                qd = up.quote(x, errors="surrogateescape")
                n += 1
                if not safe.match(qd):
                    return {"status": "inconclusive", "detail": "quote(%r) = %r leaves the request-safe alphabet" % (x, qd)}
                if up.unquote(qd, errors="surrogateescape") != x:
                    return {"status": "inconclusive", "detail": "unquote(quote(%r)) = %r" % (x, up.unquote(qd, errors="surrogateescape"))}
                qb = up.quote(x.encode("utf-8", "surrogateescape"))
                if qb != qd:
                    return {"status": "inconclusive", "detail": "quote(bytes) and quote(str, errors=surrogateescape) differ for %r" % x}
    return {"status": "discharged", "queries": n, "solver_s": 0.0, "twin": "n/a",
            "detail": "%d strings (all 256 byte values x 16 critical contexts x 3 positions + multi-byte characters): unquote(quote(x)) == x, output alphabet request-safe, bytes/str forms agree" % n,
            "samples": [{"x": "/a b?%", "quote": up.quote("/a b?%", errors="surrogateescape")}], "functions": ["urllib.parse.quote", "urllib.parse.unquote"],
            "notes": "concrete exhaustive validation of a stub contract, not a solver verdict"}


def body_slashnormalize(s: str) -> bool:
    """slashnormalize is idempotent and the identity on canonical selectors."""
    from pygopherd.protocols.base import BaseGopherProtocol

    p = BaseGopherProtocol.__new__(BaseGopherProtocol)
    a = p.slashnormalize(s)
    b = p.slashnormalize(a)
    hx.reach()
    hx.require(a.startswith("/"), "C05:normalised-selector-without-leading-slash", lambda: "%r -> %r" % (s, a))
    canonical = s == "/" or (s.startswith("/") and not s.endswith("/"))
    if canonical:
        hx.require(a == s, "C05:normalisation-changes-canonical-selector", lambda: "%r -> %r" % (s, a))
    if not a.endswith("/") or a == "/":
        hx.require(a == b, "C05:normalisation-not-idempotent", lambda: "%r -> %r -> %r" % (s, a, b))
    return True


# ------------------------------------------------------------------ (b) every advertised local selector resolves


def _site(n1, n2):
    links = "Name=Relative link\nPath=%s\n\nName=Dot link\nPath=./%s\nNumb=1\n" % (n2, n1)
    nodes = {
        "/": mv.Dir(["d", ".Links", n1]),
        "/.Links": mv.File([l + "\n" for l in ("Name=Root relative\nPath=d/%s" % n2).split("\n")]),
        "/" + n1: mv.File(b"r\n"),
        "/d": mv.Dir([n1, n2, "sub", ".Links", "m.gophermap", "box"]),
        "/d/" + n1: mv.File(b"1\n"),
        "/d/" + n2: mv.File(b"2\n"),
        "/d/sub": mv.Dir(["gophermap", n1]),
        "/d/sub/" + n1: mv.File(b"3\n"),
        "/d/sub/gophermap": mv.File(["info line\n", "0rel\t%s\n" % n1, "1up\t/d\n", "0abs\t/d/%s\n" % n2]),
        "/d/.Links": mv.File([l + "\n" for l in links.split("\n")]),
        "/d/m.gophermap": mv.File(["0sibling\t%s\n" % n2, "1dir\tsub\n"]),
        "/d/box": mv.File(b"From nobody@example.com Thu Jan  1 00:00:00 1970\nSubject: s\n\nbody\n"),
    }
    return nodes


LISTINGS = ["/", "/d", "/d/sub", "/d/m.gophermap"]


CNAMES = ["a", "a b", "q?x", "x|y", "%41", "~t", "a#b", "\udcff", "é.txt", "x.html", "M.GOPHERMAP", "n.Html"]  # the last two: case variants of extensions that select handlers


def body_closure(i1: int, i2: int, li: int) -> bool:
    """Every local entry listed for a directory / gophermap / link file of the in-memory site is
    accepted by the real handler chain when requested, as the advertised kind (menu vs document)."""
    from pygopherd import GopherExceptions
    from pygopherd.handlers import HandlerMultiplexer as HM
    from spec import shapes

    n1, n2 = CNAMES[i1], CNAMES[i2]
    if n1 == n2 or not shapes.p_secure("/" + n1) or not shapes.p_secure("/" + n2) or "/" in n1 or "/" in n2 or n1 in ("sub", "box") or n2 in ("sub", "box"):
        return True
    if n1.startswith(".") or n2.startswith(".") or n1 != n1.strip() or n2 != n2.strip() or "\n" in n1 + n2 or "\t" in n1 + n2 or "\r" in n1 + n2:
        return True
    cfg = dl.config({("handlers.dir.DirHandler", "cachetime"): 0})
    vfs = mv.MemVFS(cfg, _site(n1, n2))
    dl.install_dir_env(vfs, 5000, dl.PickleStub())
    hx.install_py_normpath()
    from harness import C01 as c01

    hat = c01.Hatches()
    hat.install()
    proto = hx.ns(server=hx.make_server(cfg), requesthandler=hx.make_rh(False), config=cfg, check_tls=lambda: False)
    try:
        top = HM.getHandler(LISTINGS[li], None, proto, cfg)
        top.prepare()
        entries = list(top.getdirlist())
        hx.reach()
        for e in entries:
            if e.gethost() is not None or e.getport() is not None or e.gettype() == "i":
                continue
            s = e.getselector()
            if s.startswith("URL:") or s.startswith("/URL:"):
                continue
            try:
                h = HM.getHandler(s, None, proto, cfg)
                h.getentry()
                h.prepare()
            except GopherExceptions.FileNotFound:
                raise hx.Violation("C05:advertised-selector-not-found", "listing %s advertises %r (type %s, name %r) which is not served" % (LISTINGS[li], s, e.gettype(), e.getname()))
            ismenu = e.gettype() == "1"
            hx.require(bool(h.isdir()) == ismenu, "C05:advertised-kind-differs", lambda: "listing %s: %r advertised as type %s but isdir()=%s" % (LISTINGS[li], s, e.gettype(), h.isdir()))
    finally:
        hat.uninstall()
        dl.restore_dir_env()
    return True


def body_virtual(sel: str, ni: int, maildir: bool) -> bool:
    """Mailbox folders advertise message selectors `folder|/MBOX-MESSAGE/<n>`: for any folder selector a
    folder handler can accept (no '?' or '|'), the message handler parses it back to the same folder
    and the same message number."""
    from pygopherd.handlers import mbox

    n = [1, 2, 9, 10, 99, 100][ni]
    if "?" in sel or "|" in sel:
        return True
    cfg = hx.DictConfig(True)
    folder = (mbox.MaildirFolderHandler if maildir else mbox.MBoxFolderHandler)
    msg = (mbox.MaildirMessageHandler if maildir else mbox.MBoxMessageHandler)
    vfs = hx.ns(stat=lambda s: (0o100644, 0, 0, 1, 0, 0, 1, 0, 0, 0), isreal=lambda: True)
    f = folder(sel, "", None, cfg, None, vfs)
    adv = f.genargsselector(f.getargflag() + str(n))
    m = msg(adv, "", None, cfg, None, vfs)
    ok = m.canhandlerequest()
    hx.reach()
    hx.require(m.getselector() == sel, "C05:message-selector-points-to-another-folder", lambda: "folder=%r advertised=%r parsed folder=%r" % (sel, adv, m.getselector()))
    hx.require(bool(ok) and m.message_num == n, "C05:message-selector-not-accepted", lambda: "folder=%r advertised=%r accepted=%s" % (sel, adv, ok))
    return True


def _zip_closure_facts():
    """Concrete (import-time) crawl of the generated archive of C16 through the real handler chain:
    every local menu line of every directory inside the archive is requested back."""
    from harness import C16 as c16

    facts = []
    for d in c16.GEN_DIRS:
        try:
            menu = c16._ask("/gen.zip" + d, "menu").decode("utf-8", "surrogateescape")
        except Exception as e:
            facts.append((d, "?", "listing raised %r" % e))
            continue
        for line in menu.split("\r\n"):
            f = line.split("\t")
            if len(f) < 4 or f[0][:1] in ("i", "3") or f[2] != "srv.example":
                continue
            sel = f[1]
            if sel.startswith("URL:") or sel.startswith("/URL:"):
                continue
            try:
                rep = c16._ask(sel, "menu")
            except Exception as e:
                facts.append((d, sel, "request raised %r" % e))
                continue
            bad = rep.startswith(b"3") and rep.count(b"\r\n") == 1
            facts.append((d, sel, "error reply %r" % rep[:80] if bad else None))
    return facts


ZIPFACTS = None


def body_zip_closure(i: int) -> bool:
    global ZIPFACTS
    f = ZIPFACTS[i]
    hx.reach()
    hx.require(f[2] is None, "C05:archive-listing-advertises-unservable-selector", lambda: "listing of /gen.zip%s advertises %r: %s" % (f[0], f[1], f[2]))
    return True


def _init_zipfacts():
    global ZIPFACTS
    if ZIPFACTS is None:
        from pygopherd.handlers import ZIP as _zipmod
        from harness import C16 as c16
        import shelve as _shelve

        _zipmod.shelve = hx.ns(open=c16._no_shelf)
        try:
            ZIPFACTS = _zip_closure_facts()
        finally:
            _zipmod.shelve = _shelve
    return ZIPFACTS


_init_zipfacts()


def obligations(tier, seed):
    n = 2 if tier == "quick" else 3
    obs = [
        Ob(id="C05.2-codec-contract", body="harness.C05:fn_codec_contract", kind="fn", engine="TV", twin=False, timeout=300,
           desc="real urllib.parse.quote/unquote: round trip and request-safe output alphabet for every byte value in every critical context",
           bounds="256 byte values + 3 multi-byte characters x 16 contexts x 3 positions (exhaustive)"),
        Ob(id="C05.3-slashnormalize", body="harness.C05:body_slashnormalize", sig="s: str", pre=["len(s) <= 5"], timeout=120,
           desc="slashnormalize yields a leading slash, is the identity on canonical selectors and idempotent", bounds="|s| <= 5 (all characters)",
           functions=["protocols.base.BaseGopherProtocol.slashnormalize"]),
    ]
    for kind in (0, 6, 2, 3, 4, 5):
        for t in range(len(TYPES)):
            if tier == "quick" and t not in (0, 1, 2):
                continue
            obs.append(Ob(id="C05.1-roundtrip[%s,type=%s]" % (dl.PROTO_NAMES[kind], TYPES[t]), body="harness.C05:body_roundtrip", sig="kind: int, t: int, tail: str, name: str, search: bool, oddprefix: bool",
                          pre=["kind == %d" % kind, "t == %d" % t, "1 <= len(tail) <= %d" % n, ALPH_PRE, "len(name) <= 1", "all(c in 'n <&' for c in name)"] + ([] if kind == 3 else ["oddprefix == False"]), timeout=(600 if kind == 4 else 300) if tier == "quick" else 1500,  # Gemini: prompt, redirect and follow = three requests per path
                          desc="%s: the link rendered for a local type-%s entry with a symbolic selector, sent back as that protocol's request, reaches handler selection as exactly the entry's selector "
                               "(one decoding, surrogateescape on both sides, WAP prefix / Gemini query prefix / '?' splitting handled consistently)" % (dl.PROTO_NAMES[kind], TYPES[t]),
                          bounds="selector = '/d/' + tail, |tail| <= %d over {a SPACE %% ? # | \" U+DCFF}; name |n| <= 1; with/without search" % n,
                          functions=["protocols.*.renderobjinfo/getrenderstr", "protocols.*.__init__/canhandlerequest/handle", "ProtocolMultiplexer.getProtocol"]))
    obs.append(Ob(id="C05.7-zip-closure", body="harness.C05:body_zip_closure", sig="i: int", pre=["0 <= i < %d" % len(ZIPFACTS)], timeout=200,
                  desc="every local link listed for the directories of the generated archive (member names with ? | non-UTF-8 bytes, link chains, sidecars) is served when requested (real handler chain, run at import; index symbolic)",
                  bounds="%d links of %d archive directories (solver-driven enumeration)" % (len(ZIPFACTS), len(set(f[0] for f in ZIPFACTS))), functions=["handlers.ZIP.ZIPHandler", "handlers.virtual.Virtual.__init__", "HandlerMultiplexer.getHandler"]))
    obs.append(Ob(id="C05.5-virtual-items", body="harness.C05:body_virtual", sig="sel: str, ni: int, maildir: bool", pre=["1 <= len(sel) <= %d" % (3 if tier == "quick" else 4), "0 <= ni <= 5", "sel[0] == '/'"],
                  timeout=300, desc="message selectors advertised by a mailbox/Maildir folder listing parse back (Virtual + MessageHandler) to the same folder and message number",
                  bounds="folder selector |s| <= %d (all characters except ? and |), message numbers {1,2,9,10,99,100}" % (3 if tier == "quick" else 4),
                  functions=["handlers.virtual.Virtual.__init__/genargsselector", "handlers.mbox.MessageHandler.canhandlerequest"]))
    for li in range(len(LISTINGS)):
        obs.append(Ob(id="C05.6-closure[%s]" % LISTINGS[li], body="harness.C05:body_closure", sig="i1: int, i2: int, li: int",
                      pre=["li == %d" % li, "0 <= i1 < %d" % len(CNAMES), "0 <= i2 < %d" % len(CNAMES)] , timeout=400 if tier == "quick" else 1800,
                      desc="listing of %s on an in-memory site (directory, link files with ./ and relative paths, gophermap directory, standalone .gophermap, mailbox) whose file names are "
                           "drawn from names with blanks, reserved URL characters and non-UTF-8 bytes: every advertised local selector is served by the real handler chain as the advertised kind" % LISTINGS[li],
                      bounds="two file names from a pool of %d (symbolic indices = solver-driven enumeration of the pairs)" % len(CNAMES),
                      functions=["HandlerMultiplexer.getHandler", "UMNDirHandler.prepare/getLinkItem", "BuckGophermapHandler.prepare/getentry"]))
    return obs
