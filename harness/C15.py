"""C15 -- Gopher+ item information is faithful."""
from __future__ import annotations

import vk.hx as hx
from harness import dirlib as dl
from harness import renderlib as rl
from vk import memvfs as mv
from vk.driver import Ob

META = {
    "level": "other",
    "technique": "bounded symbolic execution (CrossHair/z3) of the real Gopher+ renderers and of the sidecar reader over an in-memory VFS, with symbolic entry fields, attribute sets and sidecar contents",
    "claim": "For symbolic entries (type, name, selector, host, port) the +INFO line equals '+INFO: ' followed by the plain Gopher menu line; the block "
    "sequence is +INFO, +ADMIN, +VIEWS and then one block per attribute whose lines are the attribute's lines prefixed by a blank; +VIEWS names the "
    "entry's MIME type and size in k; sidecar files with symbolic presence and symbolic multi-line content become exactly those blocks, through the "
    "real ! and $ request forms, on the real file system layer and inside a ZIP-like VFS; the + form is prefixed by the exact body length or -2/-1.",
    "trusted": "CrossHair/z3; MemVFS; plugin models (%-format, encode bijection).",
    "explanation": "Differential symbolic execution of the Gopher+ information path against its documented structure.",
    "assumptions": [
        "printable sidecar content (the property's words): lines over a small printable alphabet, no CR/FF/VT (str.splitlines would split there)",
        "time.ctime/localtime formatting of Mod-Date is replaced by a tagging stub",
        "trailing blank lines of a sidecar file are not required to be reproduced",
    ],
}

EAS = [".abstract", ".keywords", ".ask", ".3d"]
BLOCKS = ["ABSTRACT", "KEYWORDS", "ASK", "3D"]


def body_infoblock(t: int, name: str, sel: str, remote: bool, port: int, gp: bool) -> bool:
    """+INFO line == '+INFO: ' + the plain Gopher (RFC 1436) line of the same entry."""
    from pygopherd.protocols import rfc1436

    cfg = hx.DictConfig(True)
    typ = ["0", "1", "7", "h", "i", "9"][t]
    e = rl.entry(cfg, typ, name, sel, host=("h.example" if remote else None), port=(port if remote else None), mimetype="text/plain", gopherp=1 if gp else 0)
    gpp = rl.proto(1, cfg)
    plain = rl.proto(0, cfg)
    info = gpp.getinfoblock(e)
    hx.reach()
    hx.require(info == "+INFO: " + plain.renderobjinfo(e), "C15:info-line-differs-from-menu-line", lambda: "info=%r plain=%r" % (info, plain.renderobjinfo(e)))
    hx.require(info.endswith("\r\n"), "C15:info-line-unterminated", lambda: repr(info))
    return True


def body_allblocks(mask: int, a: str, k: str, size: int, hasmime: bool, lang: bool) -> bool:
    """Block order and content for a symbolic attribute set with symbolic texts."""
    from pygopherd.protocols import gopherp

    cfg = hx.DictConfig(True)
    ea = {}
    texts = {"ABSTRACT": a, "KEYWORDS": k, "ASK": "ask line", "3D": "3d line"}
    for i, b in enumerate(BLOCKS):
        if mask & (1 << i):
            ea[b] = texts[b]
    if size < 0:
        size = None  # size unknown (directories, generated documents)
    e = rl.entry(cfg, "0", "n", "/x", mimetype=("text/plain" if hasmime else None), size=size, mtime=None, ea=ea)
    if lang:
        e.language = "En_US"
    p = rl.proto(1, cfg)
    out = p.getallblocks(e)
    hx.reach()
    want = "+INFO: 0n\t/x\tsrv.example\t70\t+\r\n"
    want += "+ADMIN:\r\n Admin: " + cfg.get("protocols.gopherp.GopherPlusProtocol", "admin") + "\r\n"
    if hasmime:
        want += "+VIEWS:\r\n text/plain" + (" En_US" if lang else "") + ":" + ((" <%dk>" % (size // 1024)) if size is not None else "") + "\r\n"
    for b in BLOCKS:
        if b in ea:
            want += "+" + b + ":\r\n"
            lines = ea[b].split("\n")
            if lines and lines[-1] == "":
                lines.pop()  # a final newline terminates the last line; empty text has no lines
            for line in lines:
                want += " " + line + "\r\n"
    hx.require(out == want, "C15:blocks-differ", lambda: "ea=%r real=%r documented=%r" % (ea, out, want))
    return True


def _sidecar_nodes(mask, l1, l2, trailing_nl, isdir):
    names = ["f.txt"]
    nodes = {"/": mv.Dir(["d"]), "/d/f.txt": mv.File(b"0123456789" * 300)}
    if isdir:
        nodes["/d/sub"] = mv.Dir([])
        names.append("sub")
    target = "/d/sub/" if isdir else "/d/f.txt"
    want = {}
    for i, ext in enumerate(EAS):
        if mask & (1 << i):
            if i == 0:
                lines = [l1 + "\n"] + ([l2 + ("\n" if trailing_nl else "")] if (l2 != "" or trailing_nl) else [])
                wl = [l1.rstrip()] + ([l2.rstrip()] if (l2 != "" or trailing_nl) else [])
                while wl and wl[-1] == "":
                    wl.pop()  # trailing blank lines carry no content
                want[BLOCKS[i]] = wl
            else:
                lines = ["%s text  \n" % ext, "second\n"]
                want[BLOCKS[i]] = ["%s text" % ext, "second"]
            key = target + ext
            nodes[key] = mv.File(lines)
            if not isdir:
                names.append("f.txt" + ext)
    nodes["/d"] = mv.Dir(names)
    return nodes, want


def body_sidecars(mask: int, l1: str, l2: str, trailing_nl: bool, form: int, real: bool) -> bool:
    """Real `!` (item) and `$` (directory) requests for a file with a symbolic subset of sidecar files
    with symbolic content: one block per sidecar, lines == the file's lines (right-stripped)."""
    cfg = dl.config({("handlers.dir.DirHandler", "cachetime"): 0})
    nodes, want = _sidecar_nodes(mask, l1, l2, trailing_nl, False)
    vfs = mv.MemVFS(cfg, nodes, real=real, writable=real)
    dl.install_dir_env(vfs, 5000, dl.PickleStub())
    from pygopherd.protocols import gopherp

    saved = gopherp.time
    gopherp.time = hx.ns(ctime=lambda t: "CTIME", localtime=lambda t: (2001, 1, 1, 0, 0, 0, 0, 0, 0))
    w = hx.ListWriter()
    try:
        sel = "/d/f.txt" if form == 0 else "/d"
        p = dl.make_protocol(1, sel, cfg, w) if form == 1 else None
        if form == 0:
            from pygopherd.protocols import gopherp as gp

            p = gp.GopherPlusProtocol(sel + "\t!", hx.make_server(cfg), hx.make_rh(False), None, w, cfg)
            p.canhandlerequest()
        try:
            p.handle()
        except Exception as e:
            raise hx.Violation("C15:info-request-raises:%s" % type(e).__name__, "form=%s sidecars=%r: %r" % ("!$"[form], sorted(want), e))
    finally:
        gopherp.time = saved
        dl.restore_dir_env()
    out = w.gettext()
    hx.reach()
    hx.require(out.startswith("+-2\r\n"), "C15:info-status-line", lambda: repr(out[:60]))
    # the item's own block group
    start = out.find("+INFO: 0f.txt\t/d/f.txt\t")
    hx.require(start >= 0, "C15:info-line-missing", lambda: repr(out[:300]))
    grp = out[start:]
    hx.require("+ADMIN:\r\n" in grp and "+VIEWS:\r\n text/plain: <2k>\r\n" in grp, "C15:admin-or-views-missing", lambda: repr(grp[:400]))
    for b in BLOCKS:
        hdr = "+" + b + ":\r\n"
        if b in want:
            blk = hdr
            for line in want[b]:
                blk += " " + line + "\r\n"
            hx.require(blk in grp, "C15:sidecar-block-wrong:%s" % b, lambda: "form=%s real_vfs=%s expected %r in %r" % ("!$"[form], real, blk, grp[:500]))
        else:
            hx.require(hdr not in grp, "C15:block-without-sidecar:%s" % b, lambda: repr(grp[:400]))
    return True


class _SizeTag(int):
    """An entry size that renders as a tag: the header must show exactly the entry's size."""

    def __format__(self, spec):
        return "SIZETAG"

    def __str__(self):
        return "SIZETAG"

    __repr__ = __str__


def body_plus_length(kind: int, isdir: bool, nchunks: int) -> bool:
    """`+` request: the header is `+` followed by the entry's size (which C04.3 ties to the body
    length for every handler), or the unknown-length marker -2 when the entry has no size; exactly
    one header line precedes the body; menus are announced with -2... by their own size rule."""
    from pygopherd.handlers import HandlerMultiplexer as HM
    from pygopherd.protocols import gopherp

    cfg = hx.DictConfig(True)
    hx.silence_logging()

    class H:
        def __init__(self):
            self.e = rl.entry(cfg, "1" if isdir else "0", "n", "/x", mimetype="application/gopher-menu" if isdir else "text/plain",
                              size=(_SizeTag(7) if kind == 0 else None))

        def getentry(self):
            return self.e

        def prepare(self):
            pass

        def isdir(self):
            return isdir

        def getdirlist(self):
            return []

        def write(self, w):
            for i in range(nchunks):
                w.write(b"chunk%d;" % i)

    w = hx.ListWriter()
    p = gopherp.GopherPlusProtocol("/x\t+", hx.make_server(cfg), hx.make_rh(False), None, w, cfg)
    p.canhandlerequest()
    saved = HM.getHandler
    HM.getHandler = lambda *a, **kw: H()
    try:
        p.handle()
    finally:
        HM.getHandler = saved
    out = w.getvalue()
    hx.reach()
    hdr, _, rest = out.partition(b"\r\n")
    if kind == 0:
        hx.require(hdr == b"+SIZETAG", "C15:plus-length-not-the-entry-size", lambda: "header=%r" % hdr)
    else:
        hx.require(hdr in (b"+-2", b"+-1"), "C15:plus-length-not-the-unknown-marker", lambda: "header=%r" % hdr)
    if not isdir:
        want = b"".join(b"chunk%d;" % i for i in range(nchunks))
        hx.require(rest == want, "C15:plus-body-differs", lambda: "body=%r" % rest[:80])
    return True


def body_sidecars_nonreal_fallback(mask: int, umn: bool) -> bool:
    """A file served through a VFS that is not the process-wide real file system (a ZIP): its sidecars
    are looked up in THAT VFS.  The global fallback VFS is a different, empty tree."""
    from pygopherd.handlers import UMN, file as filemod

    cfg = dl.config({("handlers.dir.DirHandler", "cachetime"): 0})
    nodes, want = _sidecar_nodes(mask, "first", "second", True, False)
    zipvfs = mv.MemVFS(cfg, nodes, real=False, writable=False)
    empty = mv.MemVFS(cfg, {"/": mv.Dir([])})
    dl.install_dir_env(empty, 5000, dl.PickleStub())
    try:
        proto = rl.proto(1, cfg)
        if umn:
            h = UMN.UMNDirHandler("/d", "", proto, cfg, zipvfs.stat("/d"), zipvfs)
            h.prepare()
            es = [e for e in h.getdirlist() if e.selector == "/d/f.txt"]
            hx.require(len(es) == 1, "C15:entry-missing-in-archive-listing", lambda: repr([e.selector for e in h.getdirlist()]))
            e = es[0]
        else:
            h = filemod.FileHandler("/d/f.txt", "", proto, cfg, zipvfs.stat("/d/f.txt"), zipvfs)
            e = h.getentry()
    finally:
        dl.restore_dir_env()
    hx.reach()
    got = {k: v.split("\n") for k, v in e.geteadict().items()}
    hx.require(got == want, "C15:sidecars-not-read-from-the-serving-vfs", lambda: "umn=%s sidecars expected %r got %r" % (umn, want, got))
    return True


def obligations(tier, seed):
    n = 2 if tier == "quick" else 3
    obs = [
        Ob(id="C15.1-infoblock[remote=%d,gopherplus=%d]" % (rm, gpp), body="harness.C15:body_infoblock", sig="t: int, name: str, sel: str, remote: bool, port: int, gp: bool",
           pre=["remote == %s" % bool(rm), "gp == %s" % bool(gpp), "0 <= t <= 5", "len(name) <= %d" % n, "1 <= len(sel) <= %d" % n, "0 <= port <= 65535"], timeout=300 if tier == "quick" else 1200,
           desc="+INFO line == '+INFO: ' + plain Gopher menu line for symbolic entries (%s, Gopher+ capable or not)" % ("remote" if rm else "local"),
           bounds="|name|, |selector| <= %d (all characters), 6 item types, any port" % n, functions=["GopherPlusProtocol.getinfoblock", "GopherProtocol.renderobjinfo"])
        for rm in (0, 1) for gpp in (0, 1)
    ] + [
        Ob(id="C15.4-plus-length", body="harness.C15:body_plus_length", sig="kind: int, isdir: bool, nchunks: int", pre=["0 <= kind <= 1", "0 <= nchunks <= 3"], timeout=120,
           desc="+ request: exactly one header line `+<entry size>` (a tagged size object) or the unknown-length marker, then the body as written by the handler",
           bounds="size known/unknown x document/menu x 0..3 body chunks (symbolic)", functions=["GopherPlusProtocol.handle"]),
    ]
    for mask in range(16):
        if tier == "quick" and mask not in (0, 1, 5, 15):
            continue
        both = (mask & 3) == 3
        for part in ([None] if (tier == "quick" or not both) else [(hm, lg) for hm in (False, True) for lg in (False, True)]):
            obs.append(Ob(id="C15.2-allblocks[mask=%d%s]" % (mask, "" if part is None else ",mime=%d,lang=%d" % part), body="harness.C15:body_allblocks", sig="mask: int, a: str, k: str, size: int, hasmime: bool, lang: bool",
                          pre=["mask == %d" % mask, "len(a) <= %d" % n, "len(k) <= %d" % (0 if tier == "quick" else (1 if both else 2)), "all(c in 'a +:' + chr(10) for c in a + k)", "-1 <= size <= 10**7"]
                              + ([] if part is None else ["hasmime == %s" % part[0], "lang == %s" % part[1], "size == 5000"])
                              + (["size == -1 or size == 5000"] if (tier == "quick" and mask == 15) else []),
                          timeout=300 if tier == "quick" else 1200,
                          desc="getallblocks: +INFO, +ADMIN, +VIEWS (MIME type, language, size in k) then one block per attribute in insertion order, lines blank-prefixed",
                          bounds="attribute subset %d, texts |a| <= %d over {a SPACE + : LF}, %s" % (mask, n, "any size or unknown size" if part is None else "size 5000 (both texts symbolic; the size varies in the other subsets)"), functions=["GopherPlusProtocol.getallblocks/getblock/getadminblock/getviewsblock"]))
    obs.append(Ob(id="C15.3b-sidecars-in-archive", body="harness.C15:body_sidecars_nonreal_fallback", sig="mask: int, umn: bool", pre=["0 <= mask <= 15"], timeout=300,
                  desc="file inside a non-real VFS (ZIP-like) while the process-wide file system is a different tree: the entry's attribute blocks come from the sidecars inside that VFS",
                  bounds="16 sidecar subsets x item / directory listing (symbolic)", functions=["handlers.file.FileHandler.getentry", "GopherEntry.populatefromfs/handleeaext"]))
    obs.append(Ob(id="C15.4b-size-truth", body="harness.C04:body_size", sig="i: int", pre=["0 <= i < 17"], timeout=120,
                  desc="the size the + header shows is, for every document handler, unknown or the number of bytes written (shared with C04.3)",
                  bounds="17 (handler, fixture) pairs on the real testdata", functions=["handlers.*.getentry/write"]))
    for form in (0, 1):
        for real in (True, False):
            for mask in ((1, 15) if tier == "quick" else range(16)):
                obs.append(Ob(id="C15.3-sidecars[%s,%s,mask=%d]" % ("!$"[form], "fs" if real else "zip-like", mask), body="harness.C15:body_sidecars",
                              sig="mask: int, l1: str, l2: str, trailing_nl: bool, form: int, real: bool",
                              pre=["mask == %d" % mask, "form == %d" % form, "real == %s" % real, "len(l1) <= %d" % n, "len(l2) <= %d" % (1 if tier == "quick" else 2),
                                   "all(c in 'a +' for c in l1 + l2)"], timeout=300 if tier == "quick" else 1200,
                              desc="real %s request on a file with sidecar subset %d (the .abstract has two symbolic lines): one block per sidecar whose lines are the file's lines" % ("!$"[form], mask),
                              bounds="sidecar subset fixed, |line| <= %d over {a SPACE +}, with/without final newline" % n,
                              functions=["GopherEntry.handleeaext/populatefromfs", "GopherPlusProtocol.handle/renderobjinfo/getallblocks", "handlers.file.FileHandler.getentry"]))
    return obs
