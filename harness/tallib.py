"""Template grammar, context construction and the real/reference runners shared by C17 and C18."""
from __future__ import annotations

import io
import itertools

import vk.hx as hx
from spec import tal_ref as R
from spec.tal_ref import El

# ------------------------------------------------------------------ the bounded template grammar
# One element `p` inside a wrapper, carrying a subset of the TAL commands, with fixed expressions
# over context names whose VALUES are symbolic:
#   cv   condition value        items  repeat sequence (elements are dicts {'v': str} or {})
#   dv   defined value          tv     content/replace value        av  attribute value     ov  omit-tag value


def one_element(define, condition, repeat, body, attributes, omit, structure=False, nested=None):
    inner_expr = "x/v | default" if repeat else "tv"
    children = ["orig ", El("b", children=["child"]), " text"] if nested is None else ["[", nested, "]"]
    p = El("p", attrs=[("class", "c"), ("id", "i1")], children=children,
           define=([("local", "d", "dv"), ("global", "g", "dv")] if define == 1 else [("global", "g2", "dv"), ("local", "l2", "tv"), ("", "d", "dv")] if define == 2
                   else [("local", "e", "dv"), ("local", "d", "e"), ("global", "g3", "d")] if define == 3 else None),  # 3: later statements use earlier ones
           condition=("cv" if condition else None),
           repeat=(("x", "items") if repeat else None),
           content=((structure, inner_expr) if body == 1 else None),
           replace=((structure, inner_expr) if body == 2 else None),
           attributes=([("class", "av"), ("title", "d | tv")] if attributes else None),
           omit=("ov" if omit == 1 else "" if omit == 2 else None))
    return El("div", children=["A ", p, " Z"])


def grammar(level):
    """level 0: quick subset; 1: every combination of the six commands on one element; 2: + nestings"""
    out = []
    combos = list(itertools.product((0, 1, 2), (0, 1), (0, 1), (0, 1, 2), (0, 1), (0, 1, 2)))
    combos += [(3,) + c for c in itertools.product((0, 1), (0, 1), (0, 1, 2), (1,), (0, 1, 2))]
    if level == 0:
        pick = [(3, 0, 0, 0, 1, 0), (0, 0, 0, 1, 0, 0), (0, 1, 0, 0, 0, 0), (0, 0, 1, 1, 0, 0), (0, 0, 1, 2, 0, 0), (1, 0, 0, 1, 1, 0), (2, 1, 1, 1, 1, 1),
                (0, 0, 0, 2, 0, 0), (0, 0, 0, 0, 1, 2), (1, 1, 1, 2, 1, 1), (2, 0, 1, 0, 1, 0), (0, 1, 1, 0, 0, 1), (1, 0, 0, 0, 0, 1)]
        combos = [c for c in combos if c in pick]
    for c in combos:
        out.append(("one%s" % "".join(map(str, c)), one_element(*c)))
    # the `text` keyword (tal:content="text expr") is the default spelled out
    out.append(("one-text-content", one_element(0, 0, 0, 1, 0, 0, structure="text")))
    out.append(("one-text-replace", one_element(0, 0, 0, 2, 0, 0, structure="text")))
    if level >= 1:
        out.append(("one-structure-content", one_element(0, 0, 0, 1, 0, 0, structure=True)))
        out.append(("one-structure-replace", one_element(0, 0, 1, 2, 0, 0, structure=True)))
    if level >= 2 or level == 0:
        # two-level nestings: outer {define, condition, repeat}, inner {content, replace, attributes, omit}
        for oc in ((1, 0, 0), (0, 1, 0), (0, 0, 1), (1, 1, 1)) if level >= 2 else ((0, 0, 1),):
            for ic in ((1, 0, 0), (2, 0, 0), (0, 1, 0), (0, 0, 1), (1, 1, 1)) if level >= 2 else ((1, 1, 0),):
                inner = El("i", attrs=[("k", "v")], children=["in"], content=((False, "x/v | tv") if ic[0] == 1 else None),
                           replace=((False, "x/v | tv") if ic[0] == 2 else None), attributes=([("k", "av")] if ic[1] else None), omit=("ov" if ic[2] else None))
                t = one_element(oc[0], oc[1], oc[2], 0, 0, 0, nested=inner)
                out.append(("nest%s-%s" % ("".join(map(str, oc)), "".join(map(str, ic))), t))
    return out


# ------------------------------------------------------------------ values


def value(kind, s, n):
    """a context value of symbolic kind: 0 nothing(None), 1 default, 2 str s, 3 int n, 4 '', 5 [], 6 [s], 7 0"""
    return [None, "DEFAULT", s, n, "", [], [s], 0][kind]


KINDS_ALL = 8


def build(cvk, tvk, avk, ovk, dvk, s1, s2, n, items):
    """returns (real Context, reference Ctx)"""
    from simpletal import simpleTALES

    vals = {"cv": value(cvk, s1, n), "tv": value(tvk, s2, n), "av": value(avk, s1, n), "ov": value(ovk, s2, n), "dv": value(dvk, s1, n)}
    seq = [("plain" if it == "PLAINITEM" else {"v": it} if it is not None else {}) for it in items]
    real = simpleTALES.Context(allowPythonPath=0)
    real.log = NullLog()
    ref = R.Ctx({})
    for k, v in vals.items():
        real.addGlobal(k, simpleTALES.DEFAULTVALUE if v == "DEFAULT" else v)
        ref.globals[k] = R.DEFAULT if v == "DEFAULT" else v
    real.addGlobal("items", seq)
    ref.globals["items"] = seq
    return real, ref


class NullLog:
    """logging under the tracer is slow and irrelevant"""

    def debug(self, *a, **kw):
        pass

    info = warning = error = critical = exception = debug


class StrWriter:
    def __init__(self):
        self.parts = []

    def write(self, s):
        self.parts.append(s)

    def value(self):
        out = ""
        for p in self.parts:
            out = out + p
        return out


COMPILED = {}


def compiled(name, tmpl):
    from simpletal import simpleTAL

    if name not in COMPILED:
        COMPILED[name] = simpleTAL.compileHTMLTemplate(io.StringIO(tmpl.source()))
    return COMPILED[name]


def expand_real(template, ctx):
    """Real interpreter, output as str (Template.expand encodes; drive the interpreter directly the
    way HTMLTemplate.expand does)."""
    from simpletal import simpleTAL

    w = StrWriter()
    it = simpleTAL.HTMLTemplateInterpreter()
    it.initialise(ctx, w)
    template.expandInline(ctx, w, it)
    return w.value(), it


def snapshot(ctx):
    g = {k: v for k, v in ctx.globals.items() if k not in ("attrs",)}
    return (dict(ctx.locals), len(ctx.localStack), len(ctx.repeatStack), dict(ctx.repeatMap), g)


# ------------------------------------------------------------------ METAL grammar: one macro (3 bodies) x one use (5 fill shapes)


def metal_grammar():
    out = []
    for mb in range(3):
        for uv in range(5):
            if mb == 0:
                body = ["[", El("span", children=["d1"], metal={"define-slot": "s1"}), "|", El("span", children=["d2"], metal={"define-slot": "s2"}), "]"]
            elif mb == 1:
                body = ["[", El("span", children=["d1 ", El("u", children=["t"], content=(False, "tv"))], metal={"define-slot": "s1"}), "|",
                        El("em", children=["e"], condition="cv", content=(False, "dv")), El("span", attrs=[("k", "orig")], children=["d2"], metal={"define-slot": "s2"}), "]"]
            else:
                body = [El("li", children=[El("span", children=["d"], metal={"define-slot": "s1"}), El("b", children=["b"], content=(False, "x/v | default"))], repeat=("x", "items"))]
            macro = El("div", attrs=[("class", "m")], children=body, metal={"define-macro": "m"})
            if uv == 0:
                fills = ["unused"]
            elif uv == 1:
                fills = [El("b", children=["F1"], content=(False, "tv"), metal={"fill-slot": "s1"})]
            elif uv == 2:
                fills = [El("b", attrs=[("k", "v")], children=["F1"], attributes=[("k", "av")], metal={"fill-slot": "s1"}), " dropped ", El("i", children=["F2"], replace=(False, "tv"), metal={"fill-slot": "s2"})]
            elif uv == 3:
                fills = [El("q", children=[El("b", children=["F"], condition="cv", metal={"fill-slot": "s2" if mb < 2 else "s1"})])]
            else:
                fills = [El("b", children=["F9"], metal={"fill-slot": "s9"})]
            use = El("p", children=fills, metal={"use-macro": "macros/m"})
            out.append(("metal%d%d" % (mb, uv), El("html", children=[macro, " ", use, " ", El("s", children=["after"], content=(False, "tv"))])))
    # three slots, all filled (the third slot expansion inside one macro expansion)
    macro = El("div", children=["[", El("span", children=["d1"], metal={"define-slot": "s1"}), "|", El("span", children=["d2"], metal={"define-slot": "s2"}), "|",
                                 El("span", children=["d3"], metal={"define-slot": "s3"}), "]"], metal={"define-macro": "m"})
    use = El("p", children=[El("b", children=["F1"], metal={"fill-slot": "s1"}), El("b", children=["F2"], content=(False, "tv"), metal={"fill-slot": "s2"}), El("b", children=["F3"], metal={"fill-slot": "s3"})], metal={"use-macro": "macros/m"})
    out.append(("metal35", El("html", children=[macro, " ", use])))
    # the macro is used BEFORE its definition is rendered in place: the definition shows its defaults
    macro = El("div", children=["[", El("span", children=["d1"], metal={"define-slot": "s1"}), "|", El("span", children=["d2 ", El("u", children=["t"], content=(False, "tv"))], metal={"define-slot": "s2"}), "]"], metal={"define-macro": "m"})
    use = El("p", children=[El("b", children=["F1"], content=(False, "tv"), metal={"fill-slot": "s1"}), El("b", children=["F2"], metal={"fill-slot": "s2"})], metal={"use-macro": "macros/m"})
    out.append(("metal0r", El("html", children=[use, " ", macro, " ", El("p", children=["again"], metal={"use-macro": "macros/m"})])))
    # a second macro used inside a fill element of the first, with its own fill
    macro = El("div", children=["[", El("span", children=["d1"], metal={"define-slot": "s1"}), "|", El("span", children=["d2"], metal={"define-slot": "s2"}), "]"], metal={"define-macro": "m"})
    macro2 = El("span", children=["(", El("i", children=["td"], metal={"define-slot": "t"}), ")"], metal={"define-macro": "n"})
    inner = El("q", children=[El("i", children=["inner"], content=(False, "tv"), metal={"fill-slot": "t"})], metal={"use-macro": "macros/n"})
    use = El("p", children=[El("b", children=["outer[", inner, "]"], metal={"fill-slot": "s1"}), El("em", children=["F2"], condition="cv", metal={"fill-slot": "s2"})], metal={"use-macro": "macros/m"})
    out.append(("metalnest", El("html", children=[macro, macro2, " ", use])))
    return out
