"""Shared scenario builders for the directory-handler obligations (C07, C10, C11, C12)."""
from __future__ import annotations

import errno

import vk.hx as hx
from vk import memvfs as mv

ROOT = "/r"


def config(over=None, **kw):
    cfg = hx.DictConfig(True)
    cfg.set("pygopherd", "root", ROOT)
    for (s, k), v in (over or {}).items():
        cfg.set(s, k, v)
    return cfg


def snapshot_entries(entries):
    """What pickle.dump would capture: a copy of each entry taken *now* (later mutation of the
    live objects, e.g. by a protocol's renderer, must not leak into the stored payload)."""
    import copy

    out = []
    for e in entries:
        c = copy.copy(e)
        c.ea = dict(e.ea)
        out.append(c)
    return out


class PickleStub:
    """Stands for the pickle module inside handlers.dir: dump stores a snapshot of the object,
    load returns a fresh copy of it or raises a chosen exception (the documented failure modes
    of pickle.load on damaged input; validated against the real pickle in C11.3)."""

    import pickle as _p

    UnpicklingError = _p.UnpicklingError
    PicklingError = _p.PicklingError
    PickleError = _p.PickleError
    HIGHEST_PROTOCOL = _p.HIGHEST_PROTOCOL
    del _p

    def __init__(self):
        self.store = {}  # selector -> list of dumped objects, in file order (a file may hold several pickles)
        self.dumps = []
        self.loads = 0
        self.load_exc = None
        self.survive = None  # damage model: only the first `survive` objects of a file are intact; reading on raises load_exc (EOFError if unset)
        self.events = None

    def _snap(self, obj):
        try:
            return snapshot_entries(obj)
        except (TypeError, AttributeError):
            import copy

            return copy.copy(obj)  # a single entry or another picklable object

    def dump(self, obj, fp, protocol=None, **kw):
        fp.write(b"PICKLE")
        if not getattr(fp, "_pk_writing", False):
            fp._pk_writing = True
            self.store[fp.selector] = []  # a file opened for writing starts empty
        self.store[fp.selector].append(self._snap(obj))
        self.dumps.append(fp.selector)
        if self.events is not None:
            self.events.append("dump")

    def load(self, fp):
        self.loads += 1
        objs = self.store.get(fp.selector, [])
        pos = getattr(fp, "_pk_pos", 0)
        limit = len(objs) if self.survive is None else min(self.survive, len(objs))
        if self.load_exc is not None and self.survive is None:
            raise self.load_exc  # the whole file is damaged
        if pos < limit:
            fp._pk_pos = pos + 1
            return self._snap(objs[pos])
        if self.load_exc is not None:
            raise self.load_exc
        raise EOFError("Ran out of input")

    # the object-style API of the pickle module, same semantics
    def Pickler(self, fp, protocol=None, **kw):
        stub = self

        class _P:
            def dump(self, obj):
                stub.dump(obj, fp)

        return _P()

    def Unpickler(self, fp, **kw):
        stub = self

        class _U:
            def load(self):
                return stub.load(fp)

        return _U()


class Clock:
    def __init__(self, t):
        self.t = t

    def time(self):
        return self.t


def install_dir_env(vfs, clock_t, pstub=None):
    """Route the dir handler's clock and pickle to stubs and every VFS_Real() to vfs."""
    from pygopherd.handlers import dir as dirmod

    hx.reset_lazies()
    hx.silence_logging()
    mv.install(vfs)
    dirmod.time = Clock(clock_t)
    if pstub is not None:
        dirmod.pickle = pstub
    return dirmod


def restore_dir_env():
    import pickle
    import time

    from pygopherd.handlers import dir as dirmod

    mv.uninstall()
    dirmod.time = time
    dirmod.pickle = pickle


def make_protocol(kind: int, selector: str, cfg, wfile, search=None):
    """A real protocol object of the given kind for `selector`, bypassing request parsing.
    kinds: 0 gopher, 1 gopher+ ($), 2 http, 3 wap, 4 gemini, 5 spartan, 6 gopher+ (+)"""
    from pygopherd.protocols import gemini, gopherp, http, rfc1436, spartan, wap

    srv = hx.make_server(cfg)
    if kind == 0:
        p = rfc1436.GopherProtocol(selector, srv, hx.make_rh(False), None, wfile, cfg)
    elif kind in (1, 6):
        p = gopherp.GopherPlusProtocol(selector + "\t" + ("$" if kind == 1 else "+"), srv, hx.make_rh(False), None, wfile, cfg)
    elif kind == 2:
        p = http.HTTPProtocol("GET " + selector + " HTTP/1.0", srv, hx.make_rh(False), hx.LineReader([]), wfile, cfg)
    elif kind == 3:
        p = wap.WAPProtocol("GET " + cfg.get("protocols.wap.WAPProtocol", "waptop") + selector + " HTTP/1.0", srv, hx.make_rh(False), hx.LineReader([]), wfile, cfg)
    elif kind == 4:
        p = gemini.GeminiProtocol("gemini://srv.example" + selector + "\r\n", srv, hx.make_rh(True), None, wfile, cfg)
    else:
        p = spartan.SpartanProtocol("srv.example " + selector + " 0\r\n", srv, hx.make_rh(False), hx.LineReader([]), wfile, cfg)
    ok = p.canhandlerequest()
    assert ok, "protocol %d does not accept its own request frame" % kind
    return p


PROTO_NAMES = ["gopher", "gopher+$", "http", "wap", "gemini", "spartan", "gopher++"]
OK_PREFIX = {2: b"HTTP/1.0 200 OK", 3: b"HTTP/1.0 200 OK", 4: b"20 ", 5: b"2 ", 1: b"+", 6: b"+"}
