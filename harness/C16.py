"""C16 -- ZIP archives are transparent."""
from __future__ import annotations

import os
import stat
import zipfile

import vk.hx as hx
from harness import C01 as c01
from spec import ziptree
from vk.driver import Ob

META = {
    "level": "other",
    "technique": "bounded symbolic execution (CrossHair/z3) of the real VFSZip lookup functions on symbolic member paths against a reference tree computed independently from the archive's member list; differential execution of the real handler chain on an archive and on its extraction; symbolic execution of ZIPHandler's selector split",
    "claim": "For each fixture archive (the repository's three plus a generated one with implicit/explicit directories, dot-files, sidecars with non-UTF-8 "
    "bytes, CP437/UTF-8 names, relative/absolute/chained/dangling/cyclic links) the archive index is built by the real populate_cache; then for a "
    "symbolic member path every real VFSZip query (exists/isdir/isfile/listdir/open) agrees with the reference tree, also after an arbitrary "
    "earlier lookup (memo state); every directory of the generated archive lists and serves identically to its extraction on disk through the "
    "real handler chain; ZIPHandler splits selectors into archive and member consistently; handlers that need a real file never act on members.",
    "trusted": "CrossHair/z3; zipfile (stdlib) for reading members; the reference tree spec/ziptree.py.",
    "explanation": "Symbolic member paths against a reference tree + differential listing of archive vs extraction.",
    "assumptions": [
        "fixtures are finite (4 archives); member paths are bounded (|p| <= 6 over the fixture's own alphabet) and have no '.', '..' or empty components (the selector filter rejects those before the VFS is asked)",
        "timestamps and the selector prefix are excluded, as the property says",
    ],
}

_S = hx.scratch_testdata()
GEN = os.path.join(_S, "gen.zip")
GENDIR = os.path.join(_S, "gen")


def _mkgen():
    """A generated archive exercising the member kinds the property lists, and its extraction."""
    if os.path.exists(GEN):
        return
    z = zipfile.ZipFile(GEN, "w")

    def add(name, data=b"", link=False, utf8=None, isdir=False):
        zi = zipfile.ZipInfo(name)
        zi.date_time = (2001, 1, 1, 0, 0, 0)
        if isdir:
            zi.external_attr = (stat.S_IFDIR | 0o755) << 16
        elif link:
            zi.external_attr = (stat.S_IFLNK | 0o777) << 16
        else:
            zi.external_attr = (stat.S_IFREG | 0o644) << 16
        z.writestr(zi, data)

    add("via", b"latest/f.txt", link=True)               # link whose target lies THROUGH a directory link that is stored later
    add("a_alias.txt", b"b_alias.txt", link=True)       # link -> link -> file, outer link stored first
    add("b_alias.txt", b"data.txt", link=True)
    add("data.txt", b"data\n")
    add("current", b"latest", link=True)                 # link -> link -> directory
    add("latest", b"v2", link=True)
    add("v2/", isdir=True)                               # explicit directory
    add("v2/f.txt", b"v2 file\n")
    add("v2/.abstract", b"About version two\nsecond line\n")   # sidecars OF A DIRECTORY live inside it
    add("v2/.keywords", b"versions\n")
    add("imp/deep/x.txt", b"implicit dirs\n")            # implicit directories
    add("imp/.hidden", b"dot file\n")
    add("imp/abs", b"/data.txt", link=True)              # absolute link
    add("imp/up", b"../v2/f.txt", link=True)             # relative link climbing one level
    add("imp/dangling", b"nowhere.txt", link=True)
    add("imp/loop1", b"loop2", link=True)
    add("imp/loop2", b"loop1", link=True)
    add("imp/out", b"../../etc/passwd", link=True)       # climbs out of the archive
    add("meta/doc.txt", b"document\n")
    add("meta/.abstract", b"Directory with metadata\n")
    add("meta/doc.txt.abstract", b"Caf\xe9 abstract\nsecond line\n")   # non-UTF-8 sidecar
    add("meta/.Links", b"Name=R\xe9sum\xe9\nPath=./doc.txt\nNumb=1\n")
    add("meta/.cap/doc.txt", b"Type=0\n")
    import gzip

    add("meta/c.txt.gz", gzip.compress(b"compressed text\n", mtime=0))
    add("gm/gophermap", b"info\n0deeper\tsub/u.txt\n0here\tt.txt\n1sub\tsub\n")
    add("gm/t.txt", b"t\n")
    add("gm/sub/u.txt", b"u\n")
    add("odd/what?.txt", b"question mark\n")
    add("odd/a|b.txt", b"pipe\n")
    add("odd/q?dir/inner.txt", b"inner\n")
    add("caf\u00e9.txt", b"utf8 name\n")                  # UTF-8 flagged name
    z.close()
    # a member whose name is raw Latin-1 bytes (not valid UTF-8): patch the cp437 form
    z = zipfile.ZipFile(GEN, "a")
    zi = zipfile.ZipInfo(b"\xae.txt".decode("cp437"))
    zi.date_time = (2001, 1, 1, 0, 0, 0)
    zi.external_attr = (stat.S_IFREG | 0o644) << 16
    z.writestr(zi, b"raw byte name\n")
    z.close()
    # extraction on disk (links as real symlinks; dangling/cyclic ones too)
    zf = zipfile.ZipFile(GEN)
    for info in zf.infolist():
        name = ziptree.member_name(info)
        path = os.path.join(GENDIR, name).encode("utf-8", "surrogateescape")
        if name.endswith("/"):
            os.makedirs(path, exist_ok=True)
            continue
        os.makedirs(os.path.dirname(path), exist_ok=True)
        data = zf.read(info.filename)
        if stat.S_ISLNK(info.external_attr >> 16):
            tgt = data.decode()
            if tgt.startswith("/"):
                tgt = os.path.join(GENDIR, tgt[1:])
            os.symlink(tgt, path)
        else:
            with open(path, "wb") as f:
                f.write(data)
        if not stat.S_ISLNK(info.external_attr >> 16):
            os.utime(path, (978307200, 978307200))


_mkgen()
FIXTURES = ["testdata.zip", "symlinktest.zip", "ziptorture.zip", "gen.zip"]


def _vfszip(fixture):
    """Real VFSZip over the fixture with the real populate_cache (the shelve layer is bypassed)."""
    from pygopherd.handlers import ZIP, base

    cfg = hx.real_config(full_handlers=True)

    class V(ZIP.VFSZip):
        def init_cache(self):
            self.populate_cache()

    return V(cfg, base.VFS_Real(cfg), "/" + fixture)


ZIPS, REFS, REFMAP, ALPH = {}, {}, {}, {}
for _f in FIXTURES:
    hx.reset_lazies()
    ZIPS[_f] = _vfszip(_f)
    REFS[_f] = ziptree.build(zipfile.ZipFile(os.path.join(_S, _f)))
    # every path that exists in the reference tree (walking through links), breadth first
    m = {"": ziptree.lookup(REFS[_f], "")}
    todo = [""]
    while todo:
        d = todo.pop()
        kind, names = m[d]
        for nme in sorted(names):
            p = (d + "/" + nme) if d else nme
            if p in m or p.count("/") > 5:
                continue
            r = ziptree.lookup(REFS[_f], p)
            if r is None:
                continue
            m[p] = r
            if r[0] == "dir":
                todo.append(p)
    REFMAP[_f] = m
    ALPH[_f] = "".join(sorted(set("/.") | set(c for p in m for c in p)))[:40]


def _badcomp(p):
    for c in p.split("/"):
        if c in ("", ".", ".."):
            return True
    return False


def _query(v, fixture, p):
    sel = "/" + fixture + "/" + p
    ex = v.exists(sel)
    isd = v.isdir(sel)
    isf = v.isfile(sel)
    names = None
    data = None
    if isd:
        names = set(v.listdir(sel))
    if isf:
        with v.open(sel, "rb") as f:
            data = f.read()
    try:
        st = v.stat(sel)
        st_ok = True
        st_dir = stat.S_ISDIR(st[0])
        st_size = st[6]
    except OSError:
        st_ok, st_dir, st_size = False, None, None
    return ex, isd, isf, names, data, st_ok, st_dir, st_size


def body_lookup(fx: int, p: str, warm: str) -> bool:
    """Real VFSZip queries on a symbolic member path (after an arbitrary earlier lookup `warm`)."""
    fixture = FIXTURES[fx]
    if _badcomp(p):
        return True
    v = ZIPS[fixture]
    v.entrycache = {}
    v.invalid_paths = set()
    if warm and not _badcomp(warm):
        try:
            v.exists("/" + fixture + "/" + warm)
        except Exception as e:
            raise hx.Violation("C16:lookup-raises:%s" % type(e).__name__, "%s: %r" % (fixture, warm))
    try:
        ex, isd, isf, names, data, st_ok, st_dir, st_size = _query(v, fixture, p)
    except Exception as e:
        raise hx.Violation("C16:lookup-raises:%s" % type(e).__name__, "%s: member %r (after %r): %r" % (fixture, p, warm, e))
    hx.reach()
    ref = REFMAP[fixture].get(p)
    if ref is None:
        hx.require(not ex and not isd and not isf and not st_ok, "C16:nonexistent-member-found", lambda: "%s: %r (after %r): exists=%s isdir=%s isfile=%s stat=%s" % (fixture, p, warm, ex, isd, isf, st_ok))
        return True
    hx.require(ex and st_ok, "C16:member-not-found", lambda: "%s: %r (after %r): exists=%s stat=%s" % (fixture, p, warm, ex, st_ok))
    if ref[0] == "dir":
        hx.require(isd and not isf and st_dir, "C16:directory-member-kind", lambda: "%s: %r" % (fixture, p))
        hx.require(names == ref[1], "C16:directory-listing-differs", lambda: "%s: %r lists %r, extraction has %r" % (fixture, p, sorted(names), sorted(ref[1])))
    else:
        hx.require(isf and not isd and not st_dir, "C16:file-member-kind", lambda: "%s: %r" % (fixture, p))
        hx.require(data == ref[1] and st_size == len(ref[1]), "C16:member-bytes-differ", lambda: "%s: %r: %d bytes vs %d" % (fixture, p, len(data or b""), len(ref[1])))
    return True


CROSS = ["pygopherd/ziponly", "pygopherd/pipetest.sh", "subdir/linked2.txt", "subdir2/real2.txt", "v2/f.txt", "meta/doc.txt", "imp/deep/x.txt", "README", "testfile.txt"]


def body_cross(fx: int, wfx: int, pi: int) -> bool:
    """Two archives served by one process: a lookup of path P in archive W (where it may not exist)
    must not change what archive F answers for P.  The memo tables are emptied IN PLACE, so whatever
    sharing the code has between VFSZip objects is kept."""
    f, wf, p = FIXTURES[fx], FIXTURES[wfx], CROSS[pi]
    for vv in ZIPS.values():
        vv.entrycache.clear()
        vv.invalid_paths.clear()
    try:
        ZIPS[wf].exists("/" + wf + "/" + p)
        ZIPS[wf].exists("/" + wf + "/" + p.split("/")[0])
        ex, isd, isf, names, data, st_ok, st_dir, st_size = _query(ZIPS[f], f, p)
    except Exception as e:
        raise hx.Violation("C16:lookup-raises:%s" % type(e).__name__, "%s after %s: %r: %r" % (f, wf, p, e))
    hx.reach()
    ref = REFMAP[f].get(p)
    if ref is None:
        hx.require(not ex and not st_ok, "C16:nonexistent-member-found", lambda: "%s: %r after asking %s" % (f, p, wf))
    else:
        hx.require(ex and st_ok and (isf if ref[0] != "dir" else isd), "C16:member-lost-after-a-lookup-in-another-archive", lambda: "%s: %r after asking %s: exists=%s stat=%s" % (f, p, wf, ex, st_ok))
        if ref[0] != "dir":
            hx.require(data == ref[1], "C16:member-bytes-differ", lambda: "%s: %r" % (f, p))
    return True


# ------------------------------------------------------------------ archive vs extraction through the real handler chain

GEN_DIRS = ["", "/v2", "/imp", "/imp/deep", "/meta", "/gm", "/odd", "/current", "/latest", "/odd/q?dir"]
GEN_DOCS = ["/via", "/odd/what?.txt", "/odd/a|b.txt", "/odd/q?dir/inner.txt", "/meta/c.txt.gz", "/data.txt", "/a_alias.txt", "/b_alias.txt", "/imp/abs", "/imp/up", "/imp/.hidden", "/meta/doc.txt", "/caf\u00e9.txt", "/\udcae.txt", "/imp/dangling", "/imp/loop1", "/imp/out", "/nonexistent", "/current/f.txt"]
REQS = [(d, "menu") for d in GEN_DIRS] + [(d, "gopher+dir") for d in GEN_DIRS[:7]] + [(d, "doc") for d in GEN_DOCS]


def _ask(sel, form):
    import traceback

    from pygopherd import logger
    from pygopherd.handlers import dir as dirmod
    from pygopherd.protocols import gopherp

    traceback.print_exc = lambda *a, **kw: None
    logger.log = lambda m: None
    dirmod.time = hx.ns(time=lambda: 4102444800.0)
    hx.reset_lazies()
    cfg = hx.real_config(full_handlers=True)
    cfg.set("handlers.dir.DirHandler", "cachetime", 0)
    req = sel.encode("utf-8", "surrogateescape") + (b"\t$" if form == "gopher+dir" else b"") + b"\r\n"
    import tempfile

    with tempfile.TemporaryFile() as w:  # a real file: decompressors write to its descriptor
        hx.make_request_handler(hx.BytesReader(req), w, cfg).handle()
        w.flush()
        w.seek(0)
        return w.read()


def _canon(out, prefix):
    import re

    out = out.replace(prefix.encode(), b"/<ROOT>")
    out = re.sub(rb" Mod-Date: [^\r\n]*\r\n", b"", out)
    out = re.sub(rb"<\d+k>", b"<Nk>", out)
    return out


def _facts():
    """Run every request against the archive and against its extraction, concretely, when the module
    is loaded (zipfile/zlib are C code; nothing here depends on a symbolic value)."""
    out = []
    for sel, form in REQS:
        try:
            a = _ask("/gen.zip" + sel, form)
            b = _ask("/gen" + sel, form)
            out.append((_canon(a, "/gen.zip"), _canon(b, "/gen")))
        except Exception as e:
            out.append(("error", repr(e)))
    return out


def body_equiv(i: int) -> bool:
    """The reply for a selector inside gen.zip equals the reply for the same selector in the
    extracted tree (modulo the selector prefix and timestamps)."""
    sel, form = REQS[i]
    f = EQUIV_FACTS[i]
    hx.reach()
    hx.require(f[0] != "error", "C16:request-raises", lambda: "%r %s: %s" % (sel, form, f[1]))
    ca, cb = f
    hx.require(ca == cb, "C16:archive-and-extraction-differ", lambda: "%s %r: archive: %r | on disk: %r" % (form, sel, ca[:600], cb[:600]))
    return True


def _no_shelf(path, flag="c", *a, **kw):
    if flag == "r":
        raise OSError("no shelf")

    class S(dict):
        def __enter__(self):
            return self

        def __exit__(self, *a):
            return False

        def close(self):
            pass

    return S()


from pygopherd.handlers import ZIP as _zipmod

_zipmod.shelve = hx.ns(open=_no_shelf)
EQUIV_FACTS = _facts()
import shelve as _shelve

_zipmod.shelve = _shelve


# ------------------------------------------------------------------ ZIPHandler selector split


def body_split(tail: str, zip_is_file: bool, is_zip: bool, enabled: bool) -> bool:
    from pygopherd.handlers import ZIP
    from vk import memvfs as mv

    hx.reset_lazies()
    cfg = hx.DictConfig(True)
    cfg.set("handlers.ZIP.ZIPHandler", "enabled", "true" if enabled else "false")
    cfg.set("pygopherd", "root", "/r")
    sel = "/d/a.zip" + tail
    nodes = {"/": mv.Dir(["d"]), "/d": mv.Dir(["a.zip"])}
    nodes["/d/a.zip"] = mv.File(b"PK") if zip_is_file else mv.Dir([])
    vfs = mv.MemVFS(cfg, nodes)
    asked = []
    saved = ZIP.zipfile
    ZIP.zipfile = hx.ns(is_zipfile=lambda p: (asked.append(p), is_zip)[1])
    try:
        h = ZIP.ZIPHandler(sel, "", None, cfg, None, vfs)
        got = bool(h.canhandlerequest())
    finally:
        ZIP.zipfile = saved
    hx.reach()
    member_ok = tail == "" or tail.startswith("/")
    want = enabled and zip_is_file and is_zip and member_ok and "\0" not in sel
    if want:
        hx.require(got, "C16:archive-selector-not-recognised", lambda: "selector=%r" % sel)
        hx.require(h.basename == "/d/a.zip", "C16:archive-part-wrong", lambda: "selector=%r basename=%r" % (sel, h.basename))
        app = h.appendage or ""
        if "//" not in sel and not sel.endswith("/"):
            hx.require("/d/a.zip" + ("/" + app if app else "") == sel, "C16:member-part-wrong", lambda: "selector=%r appendage=%r" % (sel, h.appendage))
    elif not (enabled and zip_is_file and is_zip):
        hx.require(not got, "C16:non-archive-treated-as-archive", lambda: "selector=%r enabled=%s file=%s zip=%s" % (sel, enabled, zip_is_file, is_zip))
    for p in asked:
        hx.require(c01.confined_abs(p), "C16:is_zipfile-on-path-outside-root", lambda: repr(p))
    return True


def obligations(tier, seed):
    obs = []
    n = 4 if tier == "quick" else 6
    for fx, f in enumerate(FIXTURES):
        alph = ALPH[f]
        lits = " + ".join("chr(%d)" % ord(c) for c in alph)
        for L in range(1, n + 1):
            obs.append(Ob(id="C16.1-lookup[%s,len=%d]" % (f, L), body="harness.C16:body_lookup", sig="fx: int, p: str, warm: str",
                          pre=["fx == %d" % fx, "len(p) == %d" % L, "all(c in (%s) for c in p)" % lits, "len(warm) == 0"], timeout=300 if tier == "quick" else 1500,
                          desc="%s: exists/isdir/isfile/stat/listdir/open of the real VFSZip on a symbolic member path agree with the tree obtained by extracting the archive" % f,
                          bounds="|p| == %d over the %d characters occurring in the archive's paths" % (L, len(alph)),
                          functions=["handlers.ZIP.VFSZip._getcacheinode/_getcacheentry/exists/isdir/isfile/stat/listdir/open", "populate_cache (concrete)"]))
        obs.append(Ob(id="C16.2-memo[%s]" % f, body="harness.C16:body_lookup", sig="fx: int, p: str, warm: str",
                      pre=["fx == %d" % fx, "1 <= len(p) <= %d" % (3 if tier == "quick" else 4), "1 <= len(warm) <= %d" % (2 if tier == "quick" else 3), "all(c in (%s) for c in p + warm)" % lits],
                      timeout=300 if tier == "quick" else 1500,
                      desc="%s: the answer for member path p after an earlier lookup of an arbitrary path equals the reference (entrycache / invalid_paths memo state is transparent)" % f,
                      bounds="|p| <= %d, |warm| <= %d over the archive's alphabet" % (3 if tier == "quick" else 4, 2 if tier == "quick" else 3), functions=["handlers.ZIP.VFSZip._getcacheinode"]))
    obs.append(Ob(id="C16.2b-cross-archive", body="harness.C16:body_cross", sig="fx: int, wfx: int, pi: int",
                  pre=["0 <= fx < %d" % len(FIXTURES), "0 <= wfx < %d" % len(FIXTURES), "0 <= pi < %d" % len(CROSS)], timeout=300,
                  desc="a lookup of a member path in one archive does not change what another archive answers for the same path (negative-lookup and directory memos are per archive)",
                  bounds="%d x %d archive pairs x %d member paths (symbolic indices)" % (len(FIXTURES), len(FIXTURES), len(CROSS)), functions=["handlers.ZIP.VFSZip._getcacheinode (entrycache / invalid_paths)"]))
    obs.append(Ob(id="C16.6-archive-vs-extraction", body="harness.C16:body_equiv", sig="i: int", pre=["0 <= i < %d" % len(REQS)], timeout=600,
                  desc="generated archive (link chains, dangling/cyclic/escaping links, implicit dirs, dot-files, non-UTF-8 sidecars and names, .Links/.cap/gophermap inside): "
                       "menus, Gopher+ directory info and documents are identical to those of the extracted tree",
                  bounds="%d requests (symbolic index = solver-driven enumeration), full handler list" % len(REQS),
                  functions=["handlers.ZIP.ZIPHandler.*", "VFSZip.populate_cache/open/listdir/stat", "UMNDirHandler/BuckGophermapHandler/FileHandler over VFSZip"]))
    obs.append(Ob(id="C16.4-split", body="harness.C16:body_split", sig="tail: str, zip_is_file: bool, is_zip: bool, enabled: bool",
                  pre=["len(tail) <= %d" % (3 if tier == "quick" else 4), "all(c in '/a.x' for c in tail)"], timeout=300,
                  desc="ZIPHandler.canhandlerequest: /d/a.zip + tail is recognised iff the handler is enabled, a.zip is a regular file and a ZIP, and the tail is empty or a member path",
                  bounds="|tail| <= %d over {/ a . x}" % (3 if tier == "quick" else 4), functions=["handlers.ZIP.ZIPHandler.canhandlerequest"]))
    obs.append(Ob(id="C16.5-real-file-handlers", body="harness.C01:body_nonreal", sig="hidx: int, sidx: int, real: bool",
                  pre=["0 <= hidx < %d" % len(c01.REALONLY), "0 <= sidx < %d" % len(c01.NONREAL_SELS)], timeout=200,
                  desc="mailbox/Maildir/PYG/exec handlers never act on members of a non-real VFS (shared with C01.9)", bounds="6 handlers x 9 selectors (symbolic indices)", functions=c01.REALONLY))
    return obs
