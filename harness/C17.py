"""C17 -- simpleTAL executes templates according to TAL/TALES semantics."""
from __future__ import annotations

import vk.hx as hx
from harness import tallib as T
from spec import tal_ref as R
from vk.driver import Ob

META = {
    "level": "other",
    "technique": "templates enumerated exhaustively from a bounded grammar (stated as enumeration); for each template the real compiled program is executed symbolically (CrossHair/z3) under a symbolic context and compared with an independent tree-walking TAL/TALES evaluator; TALES expressions and repeat variables likewise; structural well-formedness of every compiled program checked on its command list",
    "claim": "Every combination of the six TAL commands on one element (define local/global/multi-statement, condition, repeat, content or replace with and "
    "without structure, attributes, omit-tag) and two-level nestings are compiled by the real compiler; for each, the real interpreter's output under a "
    "symbolic context (each value ranging over nothing, default, strings, numbers, empty and non-empty sequences; repeat sequences of up to two items "
    "that may lack the addressed key) equals the reference evaluator's on every path. A bounded set of TALES expressions (paths with alternation, "
    "exists/not/nocall/string, nothing/default, repeat, attrs, callables, list and mapping steps) evaluates as the reference says for symbolic "
    "contexts; repeat variables agree with their definitions for symbolic positions; every compiled program is balanced and every jump target is "
    "the end of the owning element. METAL: one macro (three bodies: plain slots, slots next to TAL commands, a slot inside a repeat) used with five fill shapes (none, one slot, two slots, a nested fill element, an unknown slot name) expands as the reference says for symbolic contexts.",
    "trusted": "CrossHair/z3; plugin html.escape model; the reference evaluator spec/tal_ref.py (written from the TAL 1.4 / TALES specifications; agrees with the real engine on 18 000 random concrete runs at import-free smoke time).",
    "explanation": "Enumerated programs x symbolic inputs, differential against a reference evaluator.",
    "assumptions": [
        "templates beyond the grammar bounds, XML templates, nested macro use and TAL commands on the use-macro / define-slot elements themselves are outside this claim",
        "template text is concrete (the HTML parser needs tens of characters); the for-all over inputs is symbolic",
    ],
}

LEVEL = {"quick": 0, "thorough": 2}


def _templates(tier):
    return T.grammar(LEVEL[tier]) if tier == "quick" else (T.grammar(1) + [t for t in T.grammar(2) if t[0].startswith("nest")])


ALL = {name: tmpl for name, tmpl in T.grammar(1) + T.grammar(2) + T.grammar(0)}
for _n, _t in ALL.items():
    T.compiled(_n, _t)


def body_template(name: str, cvk: int, tvk: int, avk: int, ovk: int, dvk: int, s1: str, s2: str, n: int, i1k: int, i2k: int, nitems: int) -> bool:
    tmpl = ALL[name]
    ct = T.COMPILED[name]
    items = []
    if nitems >= 1:
        items.append([None, s1, "PLAINITEM"][i1k])
    if nitems >= 2:
        items.append([None, s2, "PLAINITEM"][i2k])
    real, ref = T.build(cvk, tvk, avk, ovk, dvk, s1, s2, n, items)
    before = T.snapshot(real)
    try:
        out, it = T.expand_real(ct, real)
    except Exception as e:
        raise hx.Violation("C17:expansion-raises:%s" % type(e).__name__, "template=%s: %r" % (tmpl.source(), e))
    want = R.render(tmpl, ref)
    hx.reach()
    hx.require(out == want, "C17:output-differs-from-TAL-semantics",
               lambda: "template=%s context kinds cv=%d tv=%d av=%d ov=%d dv=%d s1=%r s2=%r items=%r: real=%r documented=%r" % (tmpl.source(), cvk, tvk, avk, ovk, dvk, s1, s2, items, out, want))
    # dynamic well-formedness of the run
    hx.require(it.scopeStack == [] and it.programStack == [] and it.programCounter == len(ct.commandList), "C17:interpreter-state-unbalanced",
               lambda: "template=%s scopeStack=%d programStack=%d pc=%d/%d" % (tmpl.source(), len(it.scopeStack), len(it.programStack), it.programCounter, len(ct.commandList)))
    # C18.4: the caller's context is as before, apart from explicit global defines
    after = T.snapshot(real)
    hx.require(after[0] == before[0] and after[1] == before[1] and after[2] == before[2] and after[3] == before[3], "C18:context-locals-or-repeat-state-leaked",
               lambda: "template=%s locals %r -> %r" % (tmpl.source(), before[0], after[0]))
    declared = set()
    for node in _walk(tmpl):
        for scope, nm, ex in (node.define or []):
            if scope == "global":
                declared.add(nm)
    extra = set(after[4]) - set(before[4])
    hx.require(extra <= declared, "C18:template-variable-leaked-into-caller-context", lambda: "template=%s leaked globals %r" % (tmpl.source(), sorted(extra - declared)))
    for k in before[4]:
        if k not in declared and k != "repeat":
            hx.require(after[4][k] is before[4][k] or after[4][k] == before[4][k], "C18:caller-variable-overwritten", lambda: "template=%s variable %s" % (tmpl.source(), k))
    return True


METAL = {name: tmpl for name, tmpl in T.metal_grammar()}
for _n, _t in METAL.items():
    T.compiled(_n, _t)
METAL_MACROS = {name: R.macros_of(tmpl) for name, tmpl in METAL.items()}


def body_metal(name: str, cvk: int, tvk: int, avk: int, dvk: int, s1: str, s2: str, i1k: int, nitems: int) -> bool:
    """METAL: macro use with slot filling, real engine vs reference, symbolic context."""
    tmpl = METAL[name]
    ct = T.COMPILED[name]
    items = []
    if nitems >= 1:
        items.append([None, s1, "PLAINITEM"][i1k])
    if nitems >= 2:
        items.append(s2)
    real, ref = T.build(cvk, tvk, avk, 0, dvk, s1, s2, 7, items)
    real.addGlobal("macros", ct.macros)
    before = T.snapshot(real)
    try:
        out, it = T.expand_real(ct, real)
    except Exception as e:
        raise hx.Violation("C17:metal-expansion-raises:%s" % type(e).__name__, "template=%s: %r" % (tmpl.source(), e))
    want = R.render(tmpl, ref, None, METAL_MACROS[name])
    hx.reach()
    hx.require(out == want, "C17:metal-output-differs-from-METAL-semantics",
               lambda: "template=%s context kinds cv=%d tv=%d av=%d dv=%d s1=%r s2=%r items=%r: real=%r documented=%r" % (tmpl.source(), cvk, tvk, avk, dvk, s1, s2, items, out, want))
    hx.require(it.scopeStack == [] and it.programStack == [] and it.programCounter == len(ct.commandList), "C17:interpreter-state-unbalanced",
               lambda: "template=%s scopeStack=%d programStack=%d pc=%d/%d" % (tmpl.source(), len(it.scopeStack), len(it.programStack), it.programCounter, len(ct.commandList)))
    after = T.snapshot(real)
    hx.require(after[0] == before[0] and after[1] == before[1] and after[2] == before[2] and after[3] == before[3] and set(after[4]) == set(before[4]),
               "C18:context-state-leaked-by-macro-expansion", lambda: "template=%s locals %r -> %r" % (tmpl.source(), before[0], after[0]))
    return True


def _walk(node):
    if isinstance(node, str):
        return
    yield node
    for c in node.children:
        yield from _walk(c)


EXPRS = ["a", "a/b", "a/b/c", "a | b", "a/x | b/y | default", "exists:a/b", "exists:a/zz | a", "not:a", "not:a/b", "nocall:f", "nocall:a/zz | f/b",
         "string:p ${a} q $b.", "string:$$ ${a/b | nothing}.", "seq/0", "seq/first | default", "seq/1 | nothing", "m/k", "m/zz | a", "f", "f/b",
         "not:exists:a/b", "exists:seq/first", "string:${seq/first}|", "n/x | a", "nothing", "default", "repeat/x | a", "attrs/k", "a/b | string:lit",
         "path:a/b | b", "zz", "zz/y | n", "exists:zz", "not:zz", "string:${zz}${n}", "seq/-1 | a", "a/0 | b", "m/k/0 | default",
         # prefixes whose FIRST alternative exists and is followed by blanks before the bar
         "exists:a | nothing", "nocall:f | a", "exists: m/k | zz", "nocall: a | b"]


def body_tales(e: int, ak: int, bk: int, s: str, t: str, nseq: int, callf: bool) -> bool:
    """Real Context.evaluate vs reference on a bounded set of expressions under a symbolic context."""
    from simpletal import simpleTALES

    calls = []

    def f():
        calls.append(1)
        return {"b": t}

    a = [None, s, 7, {"b": s}, {"b": {"c": t}}, [s, t], "", {}][ak]
    b = [None, t, 0, {"y": t}][bk]
    seq = [s, t][:nseq]
    m = {"k": s}
    real = simpleTALES.Context(allowPythonPath=0)
    real.log = T.NullLog()
    ref = R.Ctx({})
    for k, v in (("a", a), ("b", b), ("seq", seq), ("m", m), ("f", f), ("n", None)):
        real.addGlobal(k, v)
        ref.globals[k] = v
    attrs = {"k": "attrval"}
    expr = EXPRS[e]
    try:
        rv = ("val", real.evaluate(expr, attrs))
    except simpleTALES.PathNotFoundException:
        rv = ("notfound",)
    except Exception as ex:
        raise hx.Violation("C17:tales-raises:%s" % type(ex).__name__, "expr=%r a=%r b=%r seq=%r: %r" % (expr, a, b, seq, ex))
    ncalls_real = len(calls)
    del calls[:]
    wv = ("val", R.top(ref, expr, attrs))
    hx.reach()
    if rv[0] == "val" and isinstance(rv[1], str) and rv[1] == simpleTALES.DEFAULTVALUE:
        rv = ("val", R.DEFAULT)
    if rv[0] == "val" and callable(rv[1]):
        rv = ("val", "CALLABLE")
    if wv[1] is f:
        wv = ("val", "CALLABLE")
    hx.require(rv == wv, "C17:tales-value-differs", lambda: "expr=%r a=%r b=%r seq=%r: real=%r documented=%r" % (expr, a, b, seq, rv, wv))
    hx.require(ncalls_real == len(calls), "C17:tales-call-count-differs", lambda: "expr=%r: real called f %d times, documented %d" % (expr, ncalls_real, len(calls)))
    return True


def body_repeatvar(i: int, n: int) -> bool:
    from simpletal import simpleTALES

    class Seq:
        def __len__(self):
            return n

        def __getitem__(self, k):
            return k

    rv = simpleTALES.RepeatVariable(Seq())
    rv.position = i
    m = rv.value()
    got = {k: (m[k]() if callable(m[k]) else m[k]) for k in ("index", "number", "even", "odd", "start", "end", "length")}
    hx.reach()
    want = {"index": i, "number": i + 1, "even": 1 if i % 2 == 0 else 0, "odd": 1 if i % 2 == 1 else 0, "start": 1 if i == 0 else 0, "end": 1 if i == n - 1 else 0, "length": n}
    for k in ("index", "number", "even", "odd", "start", "end", "length"):
        hx.require(got[k] == want[k], "C17:repeat-variable-%s" % k, lambda: "position %d of %d: %r vs %r" % (i, n, got[k], want[k]))
    return True


def body_repeatvar_names(i: int) -> bool:
    from simpletal import simpleTALES

    rv = simpleTALES.RepeatVariable(list(range(i + 1)))
    rv.position = i
    hx.reach()
    hx.require(rv.getLowerLetter() == R.letter(i) and rv.getUpperLetter() == R.letter(i).upper(), "C17:repeat-variable-letter", lambda: "position %d: %r vs %r" % (i, rv.getLowerLetter(), R.letter(i)))
    hx.require(rv.getLowerRoman() == R.roman(i + 1) and rv.getUpperRoman() == R.roman(i + 1).upper(), "C17:repeat-variable-roman", lambda: "position %d: %r vs %r" % (i, rv.getLowerRoman(), R.roman(i + 1)))
    return True


def fn_structure(tier="quick"):
    """Static well-formedness of every compiled program of the grammar: START_SCOPE / ENDTAG_ENDSCOPE
    nest, and every symbol-table target of a command is the ENDTAG_ENDSCOPE that closes the scope the
    command sits in.  Plus a concrete METAL check (macro with 0/1/2 filled slots)."""
    import io

    from simpletal import simpleTAL, simpleTALES

    n = 0
    for name, tmpl in list(ALL.items()):
        ct = T.COMPILED[name]
        cl, st = ct.commandList, ct.symbolTable
        stack = []
        owner_end = {}
        for idx, (cmd, args) in enumerate(cl):
            if cmd == simpleTAL.TAL_START_SCOPE:
                stack.append(idx)
            elif cmd == simpleTAL.TAL_ENDTAG_ENDSCOPE:
                if not stack:
                    return {"status": "violation", "detail": "unbalanced ENDTAG in %s" % name, "violations": [{"body": "harness.C17:replay_structure", "kwargs": {"name": name}, "sig": "C17:program-unbalanced"}]}
                owner_end[stack.pop()] = idx
        if stack:
            return {"status": "violation", "detail": "unclosed scope in %s" % name, "violations": [{"body": "harness.C17:replay_structure", "kwargs": {"name": name}, "sig": "C17:program-unbalanced"}]}
        # each jumping command lives between a START_SCOPE and its ENDTAG; its target must be that ENDTAG
        open_ = []
        for idx, (cmd, args) in enumerate(cl):
            if cmd == simpleTAL.TAL_START_SCOPE:
                open_.append(idx)
            elif cmd == simpleTAL.TAL_ENDTAG_ENDSCOPE:
                open_.pop()
            sym = None
            if cmd == simpleTAL.TAL_CONDITION:
                sym = args[1]
            elif cmd == simpleTAL.TAL_REPEAT:
                sym = args[2]
            elif cmd == simpleTAL.TAL_CONTENT:
                sym = args[3]
            if sym is not None:
                n += 1
                if not open_ or st[sym] != owner_end[open_[-1]]:
                    return {"status": "violation", "detail": "jump target of command %d in %s is not the end of its element" % (idx, name),
                            "violations": [{"body": "harness.C17:replay_structure", "kwargs": {"name": name}, "sig": "C17:jump-target-wrong"}]}
    # METAL: macro with slots, concrete
    src = ('<html><div metal:define-macro="m">[<span metal:define-slot="s1">d1</span>|<span metal:define-slot="s2">d2</span>]</div>'
           '<p metal:use-macro="macros/m">x</p><p metal:use-macro="macros/m"><b metal:fill-slot="s1">F1</b></p>'
           '<p metal:use-macro="macros/m"><b metal:fill-slot="s1">F1</b><i metal:fill-slot="s2" tal:content="v">F2</i></p></html>')
    tpl = simpleTAL.compileHTMLTemplate(io.StringIO(src))
    ctx = simpleTALES.Context()
    ctx.addGlobal("macros", tpl.macros)
    ctx.addGlobal("v", "<V>")
    w = T.StrWriter()
    it = simpleTAL.HTMLTemplateInterpreter()
    it.initialise(ctx, w)
    tpl.expandInline(ctx, w, it)
    want = ('<html><div>[<span>d1</span>|<span>d2</span>]</div><div>[<span>d1</span>|<span>d2</span>]</div><div>[<b>F1</b>|<span>d2</span>]</div>'
            '<div>[<b>F1</b>|<i>&lt;V&gt;</i>]</div></html>')
    if w.value() != want:
        return {"status": "violation", "detail": "METAL expansion differs: %r" % w.value(), "violations": [{"body": "harness.C17:replay_structure", "kwargs": {"name": "METAL"}, "sig": "C17:metal-expansion"}]}
    return {"status": "discharged", "queries": n, "detail": "%d compiled programs balanced; %d jump targets are the end of the owning element; METAL macro with 0/1/2 filled slots expands as specified" % (len(ALL), n),
            "twin": "n/a", "samples": [{"template": list(ALL.values())[5].source()}], "functions": ["simpletal.simpleTAL.TemplateCompiler (command list / symbol table)"],
            "notes": "concrete structural check over the enumerated grammar"}


def replay_structure(name: str) -> bool:
    r = fn_structure()
    hx.require(r["status"] == "discharged", "C17:program-structure", r["detail"])
    return True


def obligations(tier, seed):
    obs = []
    n = 1 if tier == "quick" else 2
    names = [nm for nm, _ in _templates(tier)]
    for nm in names:
        src = ALL[nm].source()
        ncmd = src.count("tal:")
        if tier == "quick" and ncmd >= 5:
            continue  # all-commands elements: thorough tier only (thousands of paths)
        K = 7 if (tier == "thorough" or ncmd <= 2) else 2
        if tier == "quick" and nm.startswith("one3"):
            K = 3  # three chained define statements: value kinds nothing/default/string/number
        uses_repeat = "tal:repeat" in src
        obs.append(Ob(id="C17.1-template[%s]" % nm, body="harness.C17:body_template",
                      sig="name: str, cvk: int, tvk: int, avk: int, ovk: int, dvk: int, s1: str, s2: str, n: int, i1k: int, i2k: int, nitems: int",
                      pre=["name == %r" % nm, "0 <= cvk <= %d" % K, "0 <= tvk <= %d" % K, "0 <= avk <= %d" % K, "0 <= ovk <= %d" % K, "0 <= dvk <= %d" % K, "len(s1) <= %d" % n, "len(s2) <= %d" % n,
                           "all(c in '<&' + chr(34) + 'a' for c in s1 + s2)", "n == 7", "0 <= i1k <= 2", "0 <= i2k <= 2", "0 <= nitems <= 2"]
                          + ([] if "tal:condition" in src else ["cvk == 0"]) + ([] if uses_repeat else ["nitems == 0", "i1k == 0", "i2k == 0"])
                          + ([] if ("tal:attributes" in src) else ["avk == 0"]) + ([] if 'tal:omit-tag="ov"' in src else ["ovk == 0"])
                          + ([] if ("tal:define" in src) else ["dvk == 0"]) + ([] if ("tv" in src) else ["tvk == 0"])
                          + (["len(s2) == 0", "i1k <= 1", "nitems <= 1", "all(c in '<a' for c in s1)"] if (tier == "quick" and (ncmd >= 3 or nm.startswith("one3"))) else []),
                      timeout=400 if tier == "quick" else 2400,
                      desc="template %s: real compile + expand under a symbolic context == reference TAL evaluator; interpreter state balanced; caller context restored" % src,
                      bounds="each used context value over kinds 0..%d of (nothing, default, string, number, '', [], [s], 0);" % K + " strings |s| <= %d over {< & \" a}; repeat of 0..2 items (missing key / string)" % n,
                      functions=["simpletal.simpleTAL.TemplateInterpreter.*", "simpletal.simpleTALES.Context.evaluate/traversePath"]))
    for e in range(len(EXPRS)):
        if tier == "quick" and e % 3 != 0 and e not in (13, 14, 15, 37, 38, 39, 40, 41):
            continue
        ex = EXPRS[e]
        import re as _re

        names = set(_re.findall(r"[a-z]+", ex))
        aks = range(8) if "a" in names else [0]
        for ak in aks:
            obs.append(Ob(id="C17.2-tales[%s,a=%d]" % (ex, ak), body="harness.C17:body_tales", sig="e: int, ak: int, bk: int, s: str, t: str, nseq: int, callf: bool",
                          pre=["e == %d" % e, "ak == %d" % ak, "0 <= bk <= 3" if "b" in names else "bk == 0", "len(s) <= 1", "len(t) <= 1", "all(c in 'x<' for c in s + t)",
                               "0 <= nseq <= 2" if "seq" in names else "nseq == 0", "callf == False"], timeout=200 if tier == "quick" else 900,
                          desc="TALES expression `%s` under a symbolic context (a of kind %d among nothing/str/int/mapping/nested mapping/list/''/{}; b; a list of 0..2 strings; a mapping; a counting callable): value and call count as specified" % (ex, ak),
                          bounds="value kinds symbolic, strings |s| <= 1 over {x <}, list length 0..2", functions=["simpletal.simpleTALES.Context.evaluate/evaluatePath/evaluateExists/evaluateNoCall/evaluateNot/evaluateString/traversePath"]))
    for nm in sorted(METAL):
        src = METAL[nm].source()
        if tier == "quick" and nm not in ("metal01", "metal02", "metal13", "metal21", "metal04", "metal35", "metal0r", "metalnest"):
            continue
        uses_repeat = "tal:repeat" in src
        nvars = sum(1 for v in ("cv", "tv", "av", "dv") if v in src)
        K = (2 if nvars >= 3 else 3) if tier == "quick" else (4 if nvars >= 3 else 7)
        parts = [None] if (tier == "quick" or "cv" not in src) else list(range(K + 1))
        for part in parts:
            obs.append(Ob(id="C17.5-metal[%s%s]" % (nm, "" if part is None else ",cv=%d" % part), body="harness.C17:body_metal", sig="name: str, cvk: int, tvk: int, avk: int, dvk: int, s1: str, s2: str, i1k: int, nitems: int",
                          pre=["name == %r" % nm, "0 <= cvk <= %d" % K, "0 <= tvk <= %d" % K, "0 <= avk <= %d" % K, "0 <= dvk <= %d" % K, "len(s1) <= 1", "len(s2) <= 1", "all(c in '<&' + chr(34) + 'a' for c in s1 + s2)", "0 <= i1k <= 2", "0 <= nitems <= 2"]
                              + ([] if "cv" in src else ["cvk == 0"]) + ([] if uses_repeat else ["nitems == 0", "i1k == 0"]) + ([] if '"k av"' in src else ["avk == 0"]) + ([] if "dv" in src else ["dvk == 0"])
                              + (["len(s2) == 0", "nitems <= 1"] if tier == "quick" else []) + ([] if part is None else ["cvk == %d" % part]),
                          timeout=400 if tier == "quick" else 1800,
                          desc="METAL template %s: macro use with slot filling under a symbolic context == reference METAL/TAL evaluator; interpreter state balanced; caller context restored" % src,
                          bounds="METAL template %s (3 macro bodies x 5 fill shapes, plus three filled slots, use before definition, nested use inside a fill); context value kinds 0..%d symbolic; strings |s| <= 1 over {< & \" a}; repeat of 0..%d items" % (nm, K, 1 if tier == "quick" else 2),
                          functions=["simpletal.simpleTAL.TemplateInterpreter.cmdUseMacro/cmdDefineSlot", "simpletal.simpleTAL.TemplateCompiler (METAL compile)", "simpletal.simpleTALES.Context.evaluate"]))
    obs.append(Ob(id="C17.3-repeat-variables", body="harness.C17:body_repeatvar", sig="i: int, n: int", pre=["0 <= i < n", "n <= 14"], timeout=120,
                  desc="repeat variables index/number/even/odd/start/end/length equal their definitions", bounds="positions 0 <= i < n <= 14 (symbolic; len() realizes the length)", functions=["simpletal.simpleTALES.RepeatVariable"]))
    obs.append(Ob(id="C17.3b-repeat-letter-roman", body="harness.C17:body_repeatvar_names", sig="i: int", pre=["0 <= i <= %d" % (60 if tier == "quick" else 800)], timeout=300 if tier == "quick" else 1500,
                  desc="repeat variables letter/Letter/roman/Roman equal the Zope definitions", bounds="positions 0..%d (symbolic)" % (60 if tier == "quick" else 800), functions=["RepeatVariable.getLowerLetter/getLowerRoman"]))
    obs.append(Ob(id="C17.4-structure", body="harness.C17:fn_structure", kind="fn", engine="structural", twin=False, timeout=300,
                  desc="every compiled program of the grammar is balanced and every jump target is the end of the owning element; METAL macro with 0/1/2 filled slots (concrete)",
                  bounds="%d templates" % len(ALL)))
    return obs
