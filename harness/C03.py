"""C03 -- every request is answered with one well-formed response, whatever came before."""
from __future__ import annotations

import errno

import vk.hx as hx
from harness import C01 as c01
from harness import C02 as c02
from harness import dirlib as dl
from vk.driver import Ob

META = {
    "level": "other",
    "technique": "regular-language emptiness of every shape test's raise-language and totality of detection (unbounded length, z3); bounded symbolic execution (CrossHair) of each protocol's real handle() against symbolic handler-layer outcomes with wire-format validators, of every handler class for escaping exception classes, of mailbox message numbers, and of two-request histories on real content",
    "claim": "Detection never raises and always finds a protocol (regular-language obligations, any length). For each protocol the real handle() is run "
    "against a stub handler layer whose outcome (not-found, two- and one-argument I/O errors, failing prepare/write, document, menu of 0-2 entries) is "
    "symbolic: exactly one syntactically valid response is produced and nothing escapes. Every handler class, on bounded symbolic selectors over an "
    "in-memory site, lets only FileNotFound/OSError escape -- the two families every protocol converts into an error reply. Two-request histories on "
    "the real testdata tree show each response is independent of the previous request and that the lazily initialised tables stay equal to what the "
    "configuration prescribes.",
    "trusted": "z3/pyre as in C02; CrossHair/z3; wire-format validators in spec/wire.py; stub handler layer outcomes.",
    "explanation": "Detection totality as regular languages + bounded symbolic execution with response validators + history pairs.",
    "assumptions": [
        "well-formed content (property text); failures in the middle of a body belong to C20",
        "bounded time is witnessed by termination of every explored path (loops over the selector are bounded by its length)",
        "history independence is checked for pairs of requests from a fixed scenario list on the repository's testdata (cache lifetime 0)",
    ],
}

KINDS = ["gopher", "gopherplus", "gopherplus-info", "gopherplus-dir", "http", "http-head", "wap", "gemini", "spartan", "secure-gopher"]


def _frame(kind, path, search):
    """(request bytes, tls, validator kind, head)"""
    if kind == "gopher":
        return (path + ("\t" + search if search else "") + "\r\n", False, "gopher", False)
    if kind == "secure-gopher":
        return (path + "\r\n", True, "gopher", False)
    if kind == "gopherplus":
        return (path + "\t" + (search + "\t" if search else "") + "+\r\n", False, "gopherplus", False)
    if kind == "gopherplus-info":
        return (path + "\t!\r\n", False, "gopherplus", False)
    if kind == "gopherplus-dir":
        return (path + "\t$\r\n", False, "gopherplus", False)
    if kind == "http":
        return ("GET " + path + ("?searchrequest=" + search if search else "") + " HTTP/1.0\r\n", False, "http", False)
    if kind == "http-head":
        return ("HEAD " + path + " HTTP/1.0\r\n", False, "http", True)
    if kind == "wap":
        return ("GET /wap" + path + " HTTP/1.0\r\n", False, "wap", False)
    if kind == "gemini":
        return ("gemini://srv.example" + path + ("?" + search if search else "") + "\r\n", True, "gemini", False)
    if kind == "spartan":
        return ("srv.example " + path + " 0\r\n", False, "spartan", False)
    raise ValueError(kind)


OUTCOMES = ["not-found", "ioerror-2args", "ioerror-1arg", "document", "menu", "prepare-ioerror-1arg", "getentry-ioerror", "empty-document"]
PATHS = ["/x", "/", "/a b", "/x/"]


def _stub_layer(outcome, k, cfg):
    from pygopherd import GopherExceptions, gopherentry

    class StubHandler:
        def __init__(self, selector, protocol):
            self.selector, self.protocol = selector, protocol
            self.entry = gopherentry.GopherEntry(selector, cfg)
            self.entry.name = "name"
            self.entry.type = "1" if outcome == "menu" else "0"
            self.entry.mimetype = "application/gopher-menu" if outcome == "menu" else "text/plain"
            self.entry.mtime = 1000000
            self.entry.gopherpsupport = 1

        def getentry(self):
            if outcome == "getentry-ioerror":
                raise IOError(errno.EACCES, "Permission denied")
            return self.entry

        def prepare(self):
            if outcome == "prepare-ioerror-1arg":
                raise IOError("Request to open x, which does not exist")

        def isdir(self):
            return outcome == "menu"

        def getdirlist(self):
            out = []
            for i in range(k):
                e = gopherentry.GopherEntry("/x/e%d" % i, cfg)
                e.name = "entry %d" % i
                e.type = "0"
                e.mimetype = "text/plain"
                e.gopherpsupport = 1
                out.append(e)
            return out

        def write(self, wfile):
            if outcome != "empty-document":
                wfile.write(b"line one\r\nline two\r\n")

    def getHandler(selector, searchrequest, protocol, config, handlerlist=None, vfs=None):
        if outcome == "not-found":
            raise GopherExceptions.FileNotFound(selector, "no handler found", protocol)
        if outcome == "ioerror-2args":
            raise IOError(errno.ENOENT, "No such file or directory")
        if outcome == "ioerror-1arg":
            raise IOError("listdir on x failed: no such file or directory")
        return StubHandler(selector, protocol)

    return getHandler


def body_protocol(kind: int, outcome: int, k: int, pidx: int, withsearch: bool) -> bool:
    from pygopherd.handlers import HandlerMultiplexer as HM
    from spec import wire

    path = PATHS[pidx]
    if KINDS[kind] in ("http", "http-head", "wap", "gemini", "spartan"):
        path = path.replace(" ", "%20")
    req, tls, vkind, head = _frame(KINDS[kind], path, "q" if withsearch else "")
    cfg = hx.DictConfig(True)
    hx.silence_logging()
    import traceback

    traceback.print_exc = lambda *a, **kw: None
    w = hx.ListWriter()
    h = hx.make_request_handler(hx.BytesReader(req.encode() + b"\r\n"), w, cfg, tls=tls)
    saved = HM.getHandler
    HM.getHandler = _stub_layer(OUTCOMES[outcome], k, cfg)
    try:
        try:
            h.handle()
        except Exception as e:
            raise hx.Violation("C03:exception-escaped-handle:%s" % type(e).__name__, "%s outcome=%s: %r" % (KINDS[kind], OUTCOMES[outcome], e))
    finally:
        HM.getHandler = saved
    out = w.getvalue()
    hx.reach()
    from pygopherd import GopherExceptions

    for (a, kw) in GopherExceptions.log.calls:
        exc = a[0]
        hx.require(isinstance(exc, (OSError, GopherExceptions.FileNotFound)), "C03:internal-error-logged:%s" % type(exc).__name__,
                   lambda: "%s outcome=%s: %r" % (KINDS[kind], OUTCOMES[outcome], exc))
    err = wire.validate(vkind, out, head)
    if vkind == "gopher" and OUTCOMES[outcome] in ("empty-document",) and out == b"":
        err = None  # an empty file is an empty raw document
    if vkind == "gopher" and OUTCOMES[outcome] == "menu" and k == 0 and out == b"":
        err = None  # an empty menu
    hx.require(err is None, "C03:malformed-response:%s" % vkind, lambda: "%s outcome=%s k=%d: %s | %r" % (KINDS[kind], OUTCOMES[outcome], k, err, out[:120]))
    errs = ("not-found", "ioerror-2args", "ioerror-1arg", "getentry-ioerror") + (() if KINDS[kind] == "gopherplus-info" else ("prepare-ioerror-1arg",))
    if OUTCOMES[outcome] in errs:
        # an error outcome must be an error reply of that protocol
        iserr = {"gopher": out.startswith(b"3"), "gopherplus": out.startswith(b"--"), "http": out.startswith(b"HTTP/1.0 404"),
                 "wap": b"Gopher Error" in out, "gemini": out[:1] in (b"4", b"5"), "spartan": out[:1] in (b"4", b"5")}[vkind]
        hx.require(iserr, "C03:error-not-reported:%s" % vkind, lambda: "%s outcome=%s: %r" % (KINDS[kind], OUTCOMES[outcome], out[:80]))
    return True


# ------------------------------------------------------------------ gemini URL parsing contract


def body_gemini_urlparse(raises: bool, pidx: int, query: bool) -> bool:
    """urllib.parse.urlparse may raise ValueError (unbalanced brackets in the authority); the real
    handle() must answer with a Gemini status line either way."""
    import urllib

    from pygopherd.handlers import HandlerMultiplexer as HM
    from pygopherd.protocols import gemini
    from spec import wire

    cfg = hx.DictConfig(True)
    hx.silence_logging()
    w = hx.ListWriter()

    def urlparse(u):
        if raises:
            raise ValueError("Invalid IPv6 URL")
        return hx.ns(path=PATHS[pidx], query="q" if query else "")

    p = gemini.GeminiProtocol("gemini://[/x\r\n", hx.make_server(cfg), hx.make_rh(True), None, w, cfg)
    saved = HM.getHandler
    HM.getHandler = _stub_layer("not-found", 0, cfg)
    gemini.urllib = hx.ns(parse=hx.ns(urlparse=urlparse, unquote=urllib.parse.unquote, quote=urllib.parse.quote, unquote_plus=urllib.parse.unquote_plus, urlsplit=urllib.parse.urlsplit))
    try:
        try:
            p.handle()
        except Exception as e:
            raise hx.Violation("C03:gemini-urlparse-error-escapes:%s" % type(e).__name__, repr(e))
    finally:
        gemini.urllib = urllib
        HM.getHandler = saved
    hx.reach()
    err = wire.gemini(w.getvalue())
    hx.require(err is None, "C03:malformed-response:gemini", lambda: "%s | %r" % (err, w.getvalue()[:80]))
    return True


# ------------------------------------------------------------------ real content: message numbers, histories

REAL_REQS = [
    b"/\r\n", b"/testfile.txt\r\n", b"/pygopherd\t$\r\n", b"/1/pygopherd\r\n", b"/0/testfile.txt\t+\r\n", b"GET /testfile.html HTTP/1.0\r\n\r\n",
    b"/python-dev.mbox\r\n", b"/python-dev.mbox|/MBOX-MESSAGE/2\r\n", b"/testdata.zip/pygopherd\r\n", b"/bucktooth\r\n",
    b"GET /wap/pygopherd HTTP/1.0\r\n\r\n", b"/nonexistent\r\n", b"/testfile.txt.gz\t!\r\n", b"/talsample.html.tal\r\n", b"/1/nonexistent\r\n",
    b"/pygopherd/searchtest.sh\tfirst query\r\n", b"/pygopherd/searchtest.sh\r\n", b"/pygopherd/cgitest.sh\r\n", b"/testfile.pyg\r\n",
    # the same inner path in two archives, missing in the first one asked and present in the second (negative-lookup state must stay per archive)
    b"/symlinktest.zip/pygopherd/ziponly\r\n", b"/testdata.zip/pygopherd/ziponly\r\n", b"/testdata.zip/subdir/linked2.txt\r\n", b"/symlinktest.zip/subdir/linked2.txt\r\n",
    # the same relative name missing in one directory and present in its sibling
    b"/pygopherd/testfile.txt\r\n",
]

hx.scratch_testdata()


def _real_cfg():
    cfg = hx.real_config(full_handlers=True)
    cfg.set("handlers.HandlerMultiplexer", "handlers", hx.FULL_HANDLERS.replace("[", "[url.URLTypeRewriter, ", 1))
    cfg.set("handlers.dir.DirHandler", "cachetime", 0)
    return cfg


def _no_dates(out: bytes) -> bytes:
    """directory timestamps are outside the property (the server's own cache files touch them)"""
    import re

    out = re.sub(rb"Last-Modified: [^\r\n]*\r\n", b"", out)
    return re.sub(rb" Mod-Date: [^\r\n]*\r\n", b"", out)


def _real_request(req, cfg, reset):
    import traceback

    from pygopherd import logger
    from pygopherd.handlers import dir as dirmod

    traceback.print_exc = lambda *a, **kw: None
    logger.log = lambda m: None
    dirmod.time = hx.ns(time=lambda: 4102444800.0)
    if reset:
        hx.reset_lazies()
    import tempfile

    with tempfile.TemporaryFile() as w:  # a real file: scripts and decompressors write to its descriptor
        hx.make_request_handler(hx.BytesReader(req), w, cfg).handle()
        w.flush()
        w.seek(0)
        return _no_dates(w.read())


def _warm():
    import mimetypes

    from pygopherd import initialization, logger

    logger.log = lambda m: None
    cfg = _real_cfg()
    import os

    cwd = os.getcwd()
    os.chdir(hx.REPO)
    try:
        initialization.init_mimetypes(cfg)  # the TAL handler needs the '.tal' encoding, as in a started server
    finally:
        os.chdir(cwd)
    out = {}
    for r in reversed(REAL_REQS):
        out[r] = _real_request(r, cfg, True)
    fwd = {}
    for r in REAL_REQS:
        fwd[r] = _real_request(r, cfg, True)
    return out, fwd


FRESH, FRESH_FWD = _warm()
import harness.C20 as _c20  # shelve snapshot helper

_c20._snapshot_shelves()


def body_history(r1: int, r2: int) -> bool:
    """Response to request r2 after r1 (same process state) equals the response to r2 on a fresh
    state; afterwards every lazily initialised table equals what the configuration prescribes."""
    from pygopherd import gopherentry
    from pygopherd.handlers import ZIP as zipmod
    from pygopherd.handlers import HandlerMultiplexer as HM, UMN, base

    zipmod.shelve = hx.ns(open=_c20._shelve_open)
    cfg = _real_cfg()
    try:
        _real_request(REAL_REQS[r1], cfg, True)
        second = _real_request(REAL_REQS[r2], cfg, False)
    except Exception as e:
        raise hx.Violation("C03:exception-escaped-handle:%s" % type(e).__name__, "%r then %r: %r" % (REAL_REQS[r1], REAL_REQS[r2], e))
    hx.reach()
    hx.require(second == FRESH[REAL_REQS[r2]], "C03:response-depends-on-earlier-request",
               lambda: "after %r the reply to %r differs: %r vs fresh %r" % (REAL_REQS[r1], REAL_REQS[r2], second[:150], FRESH[REAL_REQS[r2]][:150]))
    want_handlers = eval(cfg.get("handlers.HandlerMultiplexer", "handlers"), vars(HM))
    hx.require(HM.handlers is None or list(HM.handlers) == list(want_handlers), "C03:lazy-table-mutated:HandlerMultiplexer.handlers",
               lambda: "after %r, %r: %r" % (REAL_REQS[r1], REAL_REQS[r2], HM.handlers))
    hx.require(HM.rootpath in (None, cfg.get("pygopherd", "root")) and base.rootpath in (None, cfg.get("pygopherd", "root")), "C03:lazy-table-mutated:rootpath", "")
    hx.require(gopherentry.mapping is None or gopherentry.mapping == eval(cfg.get("GopherEntry", "mapping")), "C03:lazy-table-mutated:gopherentry.mapping", "")
    hx.require(gopherentry.eaexts is None or gopherentry.eaexts == eval(cfg.get("GopherEntry", "eaexts")), "C03:lazy-table-mutated:gopherentry.eaexts", "")
    hx.require(UMN.extstrip in (None, cfg.get("handlers.UMN.UMNDirHandler", "extstrip")), "C03:lazy-table-mutated:UMN.extstrip", "")
    return True


def body_order_independent(i: int) -> bool:
    """The reply to request i is the same whether the other requests of the scenario list were served
    before it or after it (both sweeps run in one process when this module is loaded)."""
    r = REAL_REQS[i]
    hx.reach()
    hx.require(FRESH[r] == FRESH_FWD[r], "C03:response-depends-on-earlier-request",
               lambda: "reply to %r differs between the two sweeps: %r vs %r" % (r, FRESH[r][:160], FRESH_FWD[r][:160]))
    return True


MSG_SELS = ["/python-dev.mbox|/MBOX-MESSAGE/%s" % n for n in ["0", "1", "2", "6", "7", "8", "9999", "-1", "1x", ""]] + \
           ["/nonexistent|/MBOX-MESSAGE/1", "/testfile.txt|/MBOX-MESSAGE/1", "/pygopherd|/MBOX-MESSAGE/1", "/python-dev|/MAILDIR-MESSAGE/1",
            "/python-dev|/MAILDIR-MESSAGE/9999", "/nonexistent|/MAILDIR-MESSAGE/1", "/testfile.txt|/MAILDIR-MESSAGE/1", "/python-dev.mbox|/MAILDIR-MESSAGE/1",
            # folders (and messages) of mailboxes in which one message has no header lines at all
            "/vkfix/headerless.mbox", "/vkfix/headerless.mbox|/MBOX-MESSAGE/2", "/vkfix/md", "/vkfix/md|/MAILDIR-MESSAGE/1"]


def body_message(sidx: int, kind: int) -> bool:
    """Mailbox message selectors with in-range, out-of-range and malformed numbers, on existing and
    missing mailboxes: every protocol form answers with one well-formed response."""
    import traceback

    from pygopherd import logger
    from spec import wire

    traceback.print_exc = lambda *a, **kw: None
    logs = []
    logger.log = logs.append
    hx.reset_lazies()
    req, tls, vkind, head = _frame(KINDS[kind], MSG_SELS[sidx].replace(" ", "%20") if KINDS[kind] in ("http", "http-head", "wap", "gemini", "spartan") else MSG_SELS[sidx], "")
    cfg = hx.real_config()
    w = hx.ListWriter()
    h = hx.make_request_handler(hx.BytesReader(req.encode() + b"\r\n"), w, cfg, tls=tls)
    try:
        h.handle()
    except Exception as e:
        raise hx.Violation("C03:exception-escaped-handle:%s" % type(e).__name__, "%r: %r" % (req, e))
    hx.reach()
    out = w.getvalue()
    for l in logs:
        if " EXCEPTION " in l:
            cls = l.split(" EXCEPTION ", 1)[1].split(":", 1)[0]
            hx.require(cls in ("FileNotFound", "FileNotFoundError", "IsADirectoryError", "NotADirectoryError", "PermissionError", "OSError"),
                       "C03:internal-error-logged:%s" % cls, lambda: "%r: %s" % (req, l[:200]))
    err = wire.validate(vkind, out, head)
    hx.require(err is None, "C03:malformed-response:%s" % vkind, lambda: "%r: %s | %r" % (req, err, out[:120]))
    return True


def _valid_text(vkind, out, head=False):
    """The wire validators on text (usable on symbolic responses): status line shape per protocol."""
    if vkind == "gopher":
        if out == "":
            return "empty response"
        if out.startswith("3"):
            i = out.find("\r\n")
            if i < 0 or i != len(out) - 2:
                return "error line not the only line"
        return None
    if vkind == "gopherplus":
        if not (out.startswith("+") or out.startswith("--")):
            return "no Gopher+ status line"
        i = out.find("\r\n")
        if i < 0:
            return "status line unterminated"
        code = out[1:i] if out.startswith("+") else out[2:i]
        if code not in ("-1", "-2", "1", "2") and not code.isdigit():
            return "bad status %r" % code
        return None
    if vkind in ("http", "wap"):
        if not out.startswith("HTTP/1.0 "):
            return "no HTTP status line"
        i = out.find("\r\n\r\n")
        if i < 0:
            return "header block unterminated"
        if not out[9:12].isdigit():
            return "bad status code"
        if out.find("HTTP/1.0 ", 9) == i + 4:
            return "second status line"
        return None
    if vkind == "gemini":
        i = out.find("\r\n")
        if i < 0 or not (out[0:2].isdigit() and out[2:3] == " "):
            return "no Gemini status line"
        if "\n" in out[:i] or "\r" in out[:i]:
            return "line break inside the status line"
        if out[0] != "2" and len(out) != i + 2:
            return "body after a non-success status"
        return None
    if vkind == "spartan":
        i = out.find("\r\n")
        if i < 0 or not (out[0:1] in ("2", "3", "4", "5") and out[1:2] == " "):
            return "no Spartan status line"
        if "\n" in out[:i] or "\r" in out[:i]:
            return "line break inside the status line"
        if out[0] != "2" and len(out) != i + 2:
            return "body after a non-success status"
        return None
    return "unknown protocol"


E2E_PREFIXES = ["/", "/d/", "/a", "/m|", "/x.zip/", "/1/", "/../", "URL:", "/h.html", "/t.tal", "/%E9", "/\udce9",
                "/no%0Asuch", "/q%0D%0A2"]  # percent-encoded line breaks: decoded text that is echoed must not break the status / header line


def body_e2e(kind: int, pre: int, tail: str) -> bool:
    """A whole request (protocol frame around prefix + symbolic tail) through real detection, the real
    protocol and the real handler chain over the in-memory site of C01: exactly one well-formed
    response, nothing escapes, and (C01) no access outside the root."""
    import traceback

    from harness import dirlib as dl
    from vk import memvfs as mv

    sel = E2E_PREFIXES[pre] + tail
    k = KINDS[kind]
    if k in ("http", "http-head", "wap", "gemini", "spartan"):
        if " " in sel or "?" in sel or "#" in sel:
            return True
        if not sel.isascii():
            return True  # URL clients percent-encode non-ASCII bytes (see the /%E9 prefix)
    if "\t" in sel or "\r" in sel or "\n" in sel or sel != sel.strip():
        return True
    req, tls, vkind, head = _frame(k, sel if sel.startswith("/") else "/" + sel, "")
    cfg = c01._full_config()
    vfs = mv.MemVFS(cfg, c01._tree())
    hat = c01.Hatches()
    dl.install_dir_env(vfs, 5000, dl.PickleStub())
    hat.install()
    hx.silence_logging()
    traceback.print_exc = lambda *a, **kw: None
    w = hx.ListWriter()
    lines = [req, "\r\n"]
    h = hx.make_request_handler(hx.LineReader(lines), w, cfg, tls=tls)
    try:
        try:
            h.handle()
        except Exception as e:
            raise hx.Violation("C03:exception-escaped-handle:%s" % type(e).__name__, "%s selector=%r: %r" % (k, sel, e))
    finally:
        hat.uninstall()
        dl.restore_dir_env()
    hx.reach()
    from pygopherd import GopherExceptions

    for (a, kw) in GopherExceptions.log.calls:
        exc = a[0]
        hx.require(isinstance(exc, (OSError, GopherExceptions.FileNotFound)), "C03:internal-error-logged:%s" % type(exc).__name__, lambda: "%s selector=%r: %r" % (k, sel, exc))
    out = w.gettext()
    err = _valid_text(vkind, out, head)
    if vkind == "gopher" and out == "":
        err = None if True else err  # an empty document / menu is a valid (empty) Gopher body
    hx.require(err is None, "C03:malformed-response:%s" % vkind, lambda: "%s selector=%r: %s | %r" % (k, sel, err, out[:120]))
    for (op, p) in vfs.log:
        if op != "stat":
            hx.require(c01.confined(p), "C01:access-outside-root:e2e:%s" % op.split(":")[0], lambda: "%s selector=%r %s(%r)" % (k, sel, op, p))
    return True


DIGITS = [1, 18, 19, 20, 39, 4300, 4301, 5000]


class _LenReader:
    """rfile of a connection whose client sent nothing after the request line; read(k) behaves like a
    buffered binary reader: k must fit a C ssize_t, otherwise OverflowError."""

    def __init__(self):
        self.asked = []

    def read(self, k=-1):
        self.asked.append(k)
        if k > 2 ** 63 - 1:
            raise OverflowError("cannot fit 'int' into an index-sized integer")
        return b""

    def readline(self, *a):
        return b""


def body_spartan_length(case: int, n: int) -> bool:
    """Spartan request line with an arbitrary non-negative content length (symbolic integer, or a
    run of 9s of a given number of digits): one well-formed response, nothing escapes."""
    from harness import dirlib as dl
    from pygopherd.protocols import spartan

    cfg = hx.DictConfig(True)
    hx.silence_logging()
    length = str(n) if case == 0 else "9" * DIGITS[case - 1]
    w = hx.ListWriter()
    p = spartan.SpartanProtocol("srv.example /nonexistent " + length + chr(13) + chr(10), hx.make_server(cfg), hx.make_rh(False), _LenReader(), w, cfg)
    if not p.canhandlerequest():
        return True
    from pygopherd import GopherExceptions
    from pygopherd.handlers import HandlerMultiplexer as HM

    saved = HM.getHandler

    def getHandler(selector, searchrequest, protocol, config, handlerlist=None, vfs=None):
        raise GopherExceptions.FileNotFound(selector, "no handler found", protocol)

    HM.getHandler = getHandler
    try:
        try:
            p.handle()
        except Exception as e:
            raise hx.Violation("C03:exception-escaped-handle:%s" % type(e).__name__, "spartan content length %s... (%d digits): %r" % (length[:24], len(length), e))
    finally:
        HM.getHandler = saved
    hx.reach()
    err = _valid_text("spartan", w.gettext())
    hx.require(err is None, "C03:malformed-response:spartan", lambda: "content length %s...: %s" % (length[:24], err))
    return True


def obligations(tier, seed):
    obs = [
        Ob(id="C03.1-detection-never-raises", body="harness.C02:fn_shapes", kind="fn", engine="RE", twin=False, timeout=900, kwargs={"nwit": 6},
           desc="for every protocol class and TLS value no request line makes the shape test raise (and the claimed language is the documented one)",
           bounds="request lines of any length"),
        Ob(id="C03.1b-detection-total", body="harness.C02:fn_totality", kind="fn", engine="RE", twin=False, timeout=600,
           desc="with the shipped list every request line is claimed by some protocol, under TLS and under plaintext", bounds="request lines of any length"),
    ]
    for ki, kind in enumerate(KINDS):
        obs.append(Ob(id="C03.2-protocol[%s]" % kind, body="harness.C03:body_protocol", sig="kind: int, outcome: int, k: int, pidx: int, withsearch: bool",
                      pre=["kind == %d" % ki, "0 <= outcome < %d" % len(OUTCOMES), "0 <= k <= 2", "0 <= pidx < %d" % len(PATHS)], timeout=240,
                      desc="real GopherRequestHandler.handle -> %s handle() against a stub handler layer with symbolic outcome %r: one well-formed response, "
                           "error outcomes become error replies, nothing escapes, no internal error is logged" % (kind, OUTCOMES),
                      bounds="8 handler-layer outcomes x menu size 0..2 x 4 request paths x with/without search (symbolic indices)",
                      functions=["pygopherd.server.GopherRequestHandler.handle", "pygopherd.protocols.*.handle/filenotfound/writedir"]))
    obs.append(Ob(id="C03.5-gemini-urlparse", body="harness.C03:body_gemini_urlparse", sig="raises: bool, pidx: int, query: bool", pre=["0 <= pidx < %d" % len(PATHS)], timeout=60,
                  desc="Gemini handle() with a urlparse contract stub that may raise ValueError: a Gemini status line is written in both cases",
                  bounds="urlparse outcome symbolic (raises / path x query)", functions=["pygopherd.protocols.gemini.GeminiProtocol.handle"]))
    obs.append(Ob(id="C03.3b-gethandler-absorbs-stat-errors", body="harness.C01:body_gethandler", sig="sel: str, answers: list[bool]", pre=["len(sel) <= 3", "len(answers) <= 2"], timeout=120,
                  desc="real getHandler: a stat failure of any kind on the raw selector (including the ValueError CPython raises for NUL) ends in not-found, never in an internal error",
                  bounds="|sel| <= 3 (all characters)", functions=["pygopherd.handlers.HandlerMultiplexer.getHandler"]))
    tl = 1
    for hi, hp in enumerate(c01.HANDLERS):
        for pi, pre in enumerate(c01.PREFIXES):
            if tier == "quick" and pi not in c01.QUICK_PREFIXES.get(hp.rsplit(".", 1)[1], c01.QUICK_DEFAULT)[:2]:
                continue
            obs.append(Ob(id="C03.3-handler-exceptions[%s,%r]" % (hp.rsplit(".", 1)[1], pre), body="harness.C01:body_confine", sig="hidx: int, prefix: int, tail: str, prop: int",
                          pre=["hidx == %d" % hi, "prefix == %d" % pi, "len(tail) <= %d" % tl, "prop == 3"], timeout=200,
                          desc="%s on %r + symbolic tail over the in-memory site: only FileNotFound / OSError may leave isrequestforme..write" % (hp.rsplit(".", 1)[1], pre),
                          bounds="selector = %r + tail, |tail| <= %d (all characters)" % (pre, tl), functions=[hp + ".*"]))
    for ki in (0, 1, 4, 6, 7, 8):
        for pi in range(len(E2E_PREFIXES)):
            if tier == "quick" and (ki + 2 * pi) % 5 != 0 and (ki, pi) not in ((4, 10), (0, 11), (7, 10), (7, 12), (8, 12), (7, 13), (8, 13), (4, 12), (6, 13)):
                continue
            if not E2E_PREFIXES[pi].isascii() and KINDS[ki] in ("http", "http-head", "wap", "gemini", "spartan"):
                continue
            obs.append(Ob(id="C03.7-e2e[%s,%r]" % (KINDS[ki], E2E_PREFIXES[pi]), body="harness.C03:body_e2e", sig="kind: int, pre: int, tail: str",
                          pre=["kind == %d" % ki, "pre == %d" % pi, "len(tail) <= %d" % (1 if tier == "quick" else 2), "all(c in 'a./|%' + chr(0) + chr(92) for c in tail)"], timeout=300 if tier == "quick" else 1200,
                          desc="whole request `%s` frame with selector %r + symbolic tail through real detection, protocol and handler chain over the in-memory site: one well-formed response, nothing escapes, no access outside the root"
                               % (KINDS[ki], E2E_PREFIXES[pi]),
                          bounds="selector = %r + tail, |tail| <= %d over {a . / | %% NUL \\}" % (E2E_PREFIXES[pi], 1 if tier == "quick" else 2),
                          functions=["server.GopherRequestHandler.handle", "ProtocolMultiplexer.getProtocol", "protocols.*.handle", "HandlerMultiplexer.getHandler", "handlers.*"]))
    obs.append(Ob(id="C03.5b-spartan-content-length", body="harness.C03:body_spartan_length", sig="case: int, n: int",
                  pre=["0 <= case <= %d" % len(DIGITS), "0 <= n <= 2 ** 70"], timeout=300,
                  desc="Spartan request with an arbitrary content length (a symbolic integer up to 2^70, and runs of 9s of %r digits): one well-formed response; the reader stub refuses sizes beyond a C ssize_t like the real buffered reader" % (DIGITS,),
                  bounds="0 <= n <= 2^70 (symbolic) + 8 digit counts up to 5000", functions=["protocols.spartan.SpartanProtocol.canhandlerequest/handle"]))
    for ki in (0, 1, 4, 7, 8):
        obs.append(Ob(id="C03.4-message-numbers[%s]" % KINDS[ki], body="harness.C03:body_message", sig="sidx: int, kind: int",
                      pre=["kind == %d" % ki, "0 <= sidx < %d" % len(MSG_SELS)], timeout=240,
                      desc="mailbox/Maildir message selectors (in range, past the end, zero, negative, malformed; existing, missing and wrong-kind mailboxes) via %s on the real testdata" % KINDS[ki],
                      bounds="%d selectors (symbolic index = solver-driven enumeration)" % len(MSG_SELS), functions=["pygopherd.handlers.mbox.*"]))
    obs.append(Ob(id="C03.6b-order-independent", body="harness.C03:body_order_independent", sig="i: int", pre=["0 <= i < %d" % len(REAL_REQS)], timeout=120,
                  desc="each scenario request gets the same reply in a forward and in a reverse sweep over all scenario requests in one process (process-wide state such as the environment, module tables, class attributes)",
                  bounds="%d requests, two sweeps (run at import; index symbolic)" % len(REAL_REQS), functions=["whole request path"]))
    r1s = range(len(REAL_REQS)) if tier == "thorough" else [3, 4, 0, 8, 9, 13, 15, 19, 21]
    for r1 in r1s:
        obs.append(Ob(id="C03.6-history[%d:%s]" % (r1, REAL_REQS[r1].split(b"\r")[0].decode()), body="harness.C03:body_history", sig="r1: int, r2: int",
                      pre=["r1 == %d" % r1, "0 <= r2 < %d" % len(REAL_REQS)], timeout=300,
                      desc="after request %r, the reply to each of %d requests equals its reply on a fresh process state, and the lazily initialised tables are unchanged" % (REAL_REQS[r1], len(REAL_REQS)),
                      bounds="first request fixed, second request symbolic among %d (real testdata, full handler list + URL rewriter)" % len(REAL_REQS),
                      functions=["pygopherd.handlers.HandlerMultiplexer.init_default_handlers/getHandler", "URLTypeRewriter.gethandler", "gopherentry lazies", "UMN.extstrip"]))
    return obs
