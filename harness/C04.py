"""C04 -- documents are delivered byte-for-byte with truthful length and type."""
from __future__ import annotations

import vk.hx as hx
from harness import dirlib as dl
from harness import renderlib as rl
from vk import memvfs as mv
from vk.driver import Ob

META = {
    "level": "other",
    "technique": "inductive invariant of the block-copy loop in linear integer arithmetic (loop shape from the AST; z3 + cvc5, unbounded file size); bounded symbolic execution (CrossHair/z3) of copyto with an opaque-chunk file, of size truthfulness per handler, of HEAD vs GET, of MIME wiring with a symbolic guess_type, and of the WAP text conversion",
    "claim": "The copy loop is shown, for every file size, to write the file's bytes in order (init/step/exit/progress queries unsat in two solvers, data "
    "independence checked syntactically) and the same loop is executed symbolically with short reads; every document handler advertises a size that is "
    "either unknown or the number of bytes it writes; HEAD writes GET's header block and nothing else; the advertised MIME type/encoding is the "
    "documented function of the MIME tables' answer for the selector; the WAP conversion maps each LF-delimited line to exactly one escaped line "
    "whose unescaping is the line without trailing blanks."
    " A text or HTML file with an arbitrary byte before, inside or after its title goes through the real handler chain and every protocol with its bytes intact, and its directory still lists.",
    "trusted": "z3, cvc5, CrossHair; the AST->LIA loop translation (vk/smt.py); stubs for the file object, mimetypes.guess_type, time.",
    "explanation": "SMT inductive invariant + bounded symbolic execution.",
    "assumptions": [
        "read(k) returns between 1 and k bytes before EOF and b'' only at EOF; the file does not change between stat and read",
        "the mimetypes tables themselves are trusted; what is checked is that their answer for the selector is what gets advertised",
        "WAP conversion is invertible modulo trailing blanks of each line (rstrip); lines are LF-delimited",
    ],
}


# ------------------------------------------------------------------ C04.2 copy loop with an opaque-chunk file


class Chunk:
    """An opaque slice [off, off+n) of the file; any inspection other than len() is an error."""

    def __init__(self, off, n):
        self.off, self.n = off, n

    def __len__(self):
        return self.n

    def __bool__(self):
        return self.n > 0

    def __getitem__(self, i):
        raise AssertionError("copy loop inspected the data")

    def __iter__(self):
        raise AssertionError("copy loop inspected the data")


def body_copyto(N: int, s1: int, s2: int, s3: int) -> bool:
    """Real VFS_Real.copyto over a file of symbolic size N whose first three reads are short by
    symbolic amounts: the chunks written are contiguous from 0 and end at N."""
    from pygopherd.handlers import base

    shorts = [s1, s2, s3]
    state = {"pos": 0, "reads": 0, "closed": False}

    class F:
        def read(self, k=-1):
            if k is None or k < 0:
                k = N - state["pos"]
            avail = N - state["pos"]
            n = min(k, avail)
            i = state["reads"]
            state["reads"] += 1
            if i < 3 and n > 1:
                n = max(1, n - shorts[i]) if shorts[i] > 0 else n
            c = Chunk(state["pos"], n)
            state["pos"] += n
            return c

        def __enter__(self):
            return self

        def __exit__(self, *a):
            state["closed"] = True
            return False

        def close(self):
            state["closed"] = True

    class V(base.VFS_Real):
        def __init__(self):
            pass

        def open(self, name, mode, errors=None):
            assert mode == "rb"
            return F()

    written = []

    class W:
        def write(self, c):
            written.append(c)

    V().copyto("/x", W())
    hx.reach()
    pos = 0
    for c in written:
        hx.require(isinstance(c, Chunk) and c.off == pos and c.n > 0, "C04:copy-not-contiguous", lambda: "chunks=%r" % [(c.off, c.n) for c in written if isinstance(c, Chunk)])
        pos += c.n
    hx.require(pos == N, "C04:copy-truncated-or-extended", lambda: "wrote %d of %d bytes" % (pos, N))
    hx.require(state["closed"], "C04:source-file-left-open", "")
    return True


# ------------------------------------------------------------------ C04.3 size truthfulness per handler (real fixtures)

hx.scratch_testdata()
SIZE_CASES = [
    ("file.FileHandler", "/testfile.txt"), ("file.FileHandler", "/testfile.txt.gz"), ("html.HTMLFileTitleHandler", "/testfile.html"),
    ("file.CompressedFileHandler", "/testfile.txt.gz"), ("tal.TALFileHandler", "/talsample.html.tal"), ("file.FileHandler", "/zzz.txt"),
    ("mbox.MBoxMessageHandler", "/python-dev.mbox|/MBOX-MESSAGE/1"), ("mbox.MaildirMessageHandler", "/python-dev|/MAILDIR-MESSAGE/1"),
    ("scriptexec.ExecHandler", "/pygopherd/cgitest.sh"), ("url.HTMLURLHandler", "URL:http://example.org/"), ("ZIP.ZIPHandler", "/testdata.zip/pygopherd/ziponly"),
    ("file.FileHandler", "/testarchive.tar.gz"), ("file.CompressedFileHandler", "/testarchive.tar.gz"), ("ZIP.ZIPHandler", "/testdata2.zip/testfile.txt.gz"), ("ZIP.ZIPHandler", "/symlinktest.zip/subdir/linkedrel.txt"), ("ZIP.ZIPHandler", "/testdata2.zip/testarchive.tar"), ("ZIP.ZIPHandler", "/testdata.zip/testfile.txt"),
]


def _size_case(i):
    import importlib
    import io
    import os

    from pygopherd import logger
    from pygopherd.handlers import base

    logger.log = lambda m: None
    hx.reset_lazies()
    modname, sel = SIZE_CASES[i]
    cfg = hx.real_config(full_handlers=True)
    mod, cls = modname.split(".")
    H = getattr(importlib.import_module("pygopherd.handlers." + mod), cls)
    vfs = base.VFS_Real(cfg)
    proto = hx.ns(server=hx.make_server(cfg), requesthandler=hx.make_rh(False), config=cfg, check_tls=lambda: False)
    try:
        st = vfs.stat(sel)
    except OSError:
        st = None
    h = H(sel, "", proto, cfg, st, vfs)
    if not h.isrequestforme():
        return None
    h = h.gethandler()
    e = h.getentry()
    h.prepare()
    if h.isdir():
        return None
    import tempfile

    with tempfile.TemporaryFile() as w:
        h.write(w)
        w.flush()
        w.seek(0)
        n = len(w.read())
    return e.getsize(), n


SIZE_FACTS = []
for _i in range(len(SIZE_CASES)):
    try:
        SIZE_FACTS.append(_size_case(_i))
    except Exception as _e:  # recorded, judged in the body
        SIZE_FACTS.append(("error", repr(_e)))


TLS_CASES = [("file.CompressedFileHandler", "/testfile.txt.gz"), ("ZIP.ZIPHandler", "/testdata2.zip/testfile.txt.gz"), ("scriptexec.ExecHandler", "/pygopherd/cgitest.sh"), ("file.FileHandler", "/testfile.txt")]


def _tls_case(i):
    """The handler writes its document to a TLS connection: `write()` goes through the TLS layer,
    `fileno()` is the raw socket underneath it.  Returns (bytes that went through write(), bytes
    that went to the raw descriptor, bytes the same handler writes to a plain connection)."""
    import importlib
    import tempfile

    from pygopherd import logger
    from pygopherd.handlers import base

    logger.log = lambda m: None
    modname, sel = TLS_CASES[i]
    out = []
    for tls in (True, False):
        hx.reset_lazies()
        cfg = hx.real_config(full_handlers=True)
        mod, cls = modname.split(".")
        H = getattr(importlib.import_module("pygopherd.handlers." + mod), cls)
        vfs = base.VFS_Real(cfg)
        proto = hx.ns(server=hx.make_server(cfg), requesthandler=hx.make_rh(tls), config=cfg, check_tls=lambda tls=tls: tls)
        h = H(sel, "", proto, cfg, vfs.stat(sel) if "|" not in sel and ".zip/" not in sel else None, vfs)
        if ".zip/" in sel:
            h = H(sel, "", proto, cfg, None, vfs)
        assert h.isrequestforme(), (modname, sel)
        h = h.gethandler()
        h.getentry()
        h.prepare()
        with tempfile.TemporaryFile() as raw:
            chunks = []

            class W:
                def write(self, b):
                    chunks.append(bytes(b))
                    return len(b)

                def flush(self):
                    pass

                def fileno(self):
                    return raw.fileno()

            h.write(W())
            raw.flush()
            raw.seek(0)
            out.append((b"".join(chunks), raw.read()))
    (tls_written, tls_raw), (plain_written, plain_raw) = out
    return tls_written, tls_raw, plain_written + plain_raw


TLS_FACTS = []
for _i in range(len(TLS_CASES)):
    try:
        TLS_FACTS.append(_tls_case(_i))
    except Exception as _e:
        TLS_FACTS.append(("error", repr(_e)))


def body_tls_sink(i: int) -> bool:
    """Over TLS the whole document goes through the connection object: nothing is written to the raw
    socket descriptor underneath (where it would travel in clear and corrupt the TLS stream), and the
    bytes are the ones a plaintext connection gets.  (Handlers ran at import, with real decompressors.)"""
    f = TLS_FACTS[i]
    hx.reach()
    hx.require(f[0] != "error", "C04:handler-failed-on-fixture:%s" % TLS_CASES[i][0], lambda: "%r: %s" % (TLS_CASES[i], f[1]))
    written, raw, plain = f
    hx.require(raw == b"", "C04:document-bytes-bypass-the-tls-layer:%s" % TLS_CASES[i][0], lambda: "%r: %d bytes written to the raw socket descriptor, %d through the connection" % (TLS_CASES[i], len(raw), len(written)))
    hx.require(written == plain and len(plain) > 0, "C04:tls-body-differs-from-plaintext-body:%s" % TLS_CASES[i][0], lambda: "%r: %d vs %d bytes" % (TLS_CASES[i], len(written), len(plain)))
    return True


def body_size(i: int) -> bool:
    """For each (handler, fixture): the advertised size is unknown or equals the number of bytes
    written.  (The handlers ran on the real files when this module was loaded.)"""
    f = SIZE_FACTS[i]
    hx.reach()
    if f is None:
        return True
    hx.require(f[0] != "error", "C04:handler-failed-on-fixture:%s" % SIZE_CASES[i][0], lambda: "%r: %s" % (SIZE_CASES[i], f[1]))
    size, n = f
    hx.require(size is None or size == n, "C04:advertised-size-differs-from-body:%s" % SIZE_CASES[i][0], lambda: "%r: size=%r body=%d bytes" % (SIZE_CASES[i], size, n))
    return True


# ------------------------------------------------------------------ C04.4 HEAD == GET headers, no body


def body_head(mt: int, hasmtime: bool, isdir: bool, notfound: bool) -> bool:
    from pygopherd import GopherExceptions
    from pygopherd.handlers import HandlerMultiplexer as HM
    from pygopherd.protocols import http

    cfg = hx.DictConfig(True)
    hx.silence_logging()
    mimetype = [None, "text/plain", "application/gopher-menu", "image/gif", "text/html"][mt]

    class H:
        def __init__(self):
            self.e = rl.entry(cfg, "1" if isdir else "0", "n", "/x", mimetype=mimetype, mtime=(1000000 if hasmtime else None), size=5)

        def getentry(self):
            return self.e

        def prepare(self):
            pass

        def isdir(self):
            return isdir

        def getdirlist(self):
            return [rl.entry(cfg, "0", "child", "/x/c", mimetype="text/plain")]

        def write(self, w):
            w.write(b"BODY!")

    def getHandler(selector, searchrequest, protocol, config, handlerlist=None, vfs=None):
        if notfound:
            raise GopherExceptions.FileNotFound(selector, "no handler found", protocol)
        return H()

    outs = {}
    saved = HM.getHandler
    saved_time = http.time
    http.time = hx.ns(gmtime=lambda t: t, strftime=lambda fmt, g: "DATE(%s)" % g)
    HM.getHandler = getHandler
    try:
        for method in ("GET", "HEAD"):
            w = hx.ListWriter()
            p = http.HTTPProtocol(method + " /x HTTP/1.0\r\n", hx.make_server(cfg), hx.make_rh(False), hx.LineReader([]), w, cfg)
            p.canhandlerequest()
            p.handle()
            outs[method] = w.getvalue()
    finally:
        HM.getHandler = saved
        http.time = saved_time
    hx.reach()
    gh, sep, gb = outs["GET"].partition(b"\r\n\r\n")
    hh, sep2, hb = outs["HEAD"].partition(b"\r\n\r\n")
    hx.require(sep == b"\r\n\r\n" and sep2 == b"\r\n\r\n", "C04:http-header-block-unterminated", lambda: repr(outs))
    hx.require(gh == hh, "C04:head-headers-differ-from-get", lambda: "GET %r HEAD %r" % (gh, hh))
    if not notfound:
        hx.require(hb == b"", "C04:head-carries-a-body", lambda: repr(hb[:80]))
        hx.require(gb != b"", "C04:get-without-body", "")
    return True


# ------------------------------------------------------------------ C04.5 MIME wiring


def body_mime(tkind: int, ekind: int, preset: bool) -> bool:
    """populatefromfs: advertised (mimetype, encoding, encodedmimetype, type) is the documented
    function of what the MIME tables say about the selector."""
    from pygopherd import gopherentry

    cfg = dl.config()
    gtype = [None, "text/plain", "image/gif", "application/x-tar"][tkind]
    genc = [None, "gzip", "tal.TALFileHandler"][ekind]
    asked = []

    def guess_type(name, strict=True):
        asked.append(name)
        return (gtype, genc)

    hx.reset_lazies()
    saved = gopherentry.mimetypes
    gopherentry.mimetypes = hx.ns(guess_type=guess_type)
    try:
        e = gopherentry.GopherEntry("/d/file.x", cfg)
        if preset:
            e.mimetype = "application/preset"
        vfs = mv.MemVFS(cfg, {"/d/file.x": mv.File(b"12345")})
        e.populatefromfs("/d/file.x", vfs.stat("/d/file.x"), vfs=vfs)
    finally:
        gopherentry.mimetypes = saved
    hx.reach()
    hx.require(asked == ["/d/file.x"], "C04:mime-tables-asked-about-something-else", lambda: repr(asked))
    default = cfg.get("GopherEntry", "defaultmimetype")
    if preset:
        want_m = "application/preset"
    elif genc:
        want_m = "application/octet-stream"
    else:
        want_m = gtype or default
    hx.require(e.mimetype == want_m, "C04:advertised-mimetype-wrong", lambda: "tables=(%r,%r) advertised=%r documented=%r" % (gtype, genc, e.mimetype, want_m))
    hx.require(e.encoding == genc, "C04:advertised-encoding-wrong", lambda: "tables=(%r,%r) encoding=%r" % (gtype, genc, e.encoding))
    hx.require(e.encodedmimetype == (gtype if genc else None), "C04:encoded-mimetype-wrong", lambda: "tables=(%r,%r) encodedmimetype=%r" % (gtype, genc, e.encodedmimetype))
    hx.require(e.size == 5, "C04:advertised-size-wrong", lambda: repr(e.size))
    return True


# ------------------------------------------------------------------ C04.6 WAP text -> WML


def _wap_convert(lines):
    from pygopherd.protocols import wap

    cfg = hx.DictConfig(True)
    w = hx.ListWriter()
    pr = rl.proto(3, cfg, wfile=w)
    pr.needsconversion = 1
    pr.handler = hx.ns(write=lambda f: None)

    class FakeIO:
        def __init__(self):
            self.i = 0

        def write(self, x):
            pass

        def seek(self, n):
            pass

        def getvalue(self):
            from vk.symbytes import SymBytes

            return SymBytes(list(lines))

        def readline(self):
            if self.i < len(lines):
                s = lines[self.i]
                self.i += 1
                return hx.StrLine(s)
            return hx.StrLine("")

    saved = wap.io
    wap.io = hx.ns(BytesIO=FakeIO)
    try:
        pr.handlerwrite(w)
    finally:
        wap.io = saved
    return w.gettext()


def _unescape(s):
    return s.replace("&lt;", "<").replace("&gt;", ">").replace("&quot;", '"').replace("&#x27;", "'").replace("&amp;", "&")


def body_wap(l1: str, l2: str, final_nl: bool) -> bool:
    """Two LF-delimited lines: between the fixed header and footer there is exactly one output line
    per non-blank input line (a paragraph break per blank one), in order, whose unescaping is the
    input line without trailing blanks."""
    from pygopherd.protocols import wap

    lines = [l1 + "\n", l2 + ("\n" if final_nl else "")]
    if l2 == "" and not final_nl:
        lines = [l1 + "\n"]
    out = _wap_convert(lines)
    hx.reach()
    head = wap.wmlheader + '<card id="index" title="Text File" newcontext="true">\n<p>\n'
    foot = "</p>\n</card>\n</wml>\n"
    hx.require(out.startswith(head) and out.endswith(foot), "C04:wap-frame-wrong", lambda: repr(out[:200]))
    body = out[len(head):len(out) - len(foot)]
    want = ""
    for l in lines:
        t = l.rstrip()
        if t == "":
            want += "</p>\n<p>"
        else:
            esc = t.replace("&", "&amp;").replace("<", "&lt;").replace(">", "&gt;").replace('"', "&quot;").replace("'", "&#x27;")
            want += esc + "\n"
    hx.require(body == want, "C04:wap-conversion-not-line-by-line", lambda: "lines=%r body=%r expected=%r" % (lines, body, want))
    return True


# ------------------------------------------------------------------ C04.8 arbitrary bytes through the real handler chain

REP_BYTES = [0x00, 0x0A, 0x0D, 0x20, 0x3C, 0x26, 0x41, 0x7F, 0x80, 0xBF, 0xC0, 0xC3, 0xE9, 0xF4, 0xF5, 0xFF]


def body_bytes(p: int, html: bool, k: int, where: int, listing: bool) -> bool:
    """A file with an arbitrary byte before / inside / after its <title> (or in a plain text file),
    served by the real handler chain over MemVFS through each protocol: the document request is
    answered with success and the body is the file's bytes; the listing of its directory succeeds
    and names it (the HTML title handler reads the file to build the entry)."""
    name = "f.html" if html else "f.txt"
    b = bytes([k])
    data = (b"<html>" + (b if where == 0 else b"") + b"<head><title>T" + (b if where == 1 else b"") + b"t</title></head>\n<body>x" + (b if where == 2 else b"") + b"</body></html>\n")
    nodes = {"/": mv.Dir(["d"]), "/d": mv.Dir([name]), "/d/" + name: mv.File(data)}
    cfg = dl.config()
    vfs = mv.MemVFS(cfg, nodes)
    dl.install_dir_env(vfs, 5000, dl.PickleStub())
    hx.silence_logging()
    w = hx.ListWriter()
    try:
        proto = dl.make_protocol(p, "/d" if listing else "/d/" + name, cfg, w)
        try:
            proto.handle()
        except Exception as e:
            raise hx.Violation("C04:request-failed:%s" % type(e).__name__, "%s %s byte 0x%02x at %d listing=%s: %r" % (dl.PROTO_NAMES[p], name, k, where, listing, e))
    finally:
        dl.restore_dir_env()
    out = w.getvalue()
    hx.reach()
    if p in dl.OK_PREFIX:
        hx.require(out.startswith(dl.OK_PREFIX[p]), "C04:error-status-for-a-regular-file", lambda: "%s %s byte 0x%02x at %d listing=%s: %r" % (dl.PROTO_NAMES[p], name, k, where, listing, out[:80]))
    if listing:
        hx.require(name.encode() in out, "C04:file-missing-from-listing", lambda: "%s %s byte 0x%02x: %r" % (dl.PROTO_NAMES[p], name, k, out[:200]))
    elif p != 3:
        hx.require(out.endswith(data) and (p != 0 or out == data), "C04:body-differs-from-file-bytes", lambda: "%s %s byte 0x%02x at %d: %r" % (dl.PROTO_NAMES[p], name, k, where, out[:200]))
    return True


def obligations(tier, seed):
    obs = [
        Ob(id="C04.1-copyto-invariant", body="vk.smt:fn_copyto_invariant", kind="fn", engine="SMT", twin=False, timeout=300,
           desc="VFS_Real.copyto: inductive invariant (file offset == bytes written, chunks written unmodified at their offset), init/step/exit/progress unsat in z3 and cvc5",
           bounds="every file size N >= 0 (unbounded); loop shape and block size read from the AST"),
        Ob(id="C04.2-copyto-symbolic", body="harness.C04:body_copyto", sig="N: int, s1: int, s2: int, s3: int",
           pre=["0 <= N <= %d" % (4 * 4096 + 7 if tier == "quick" else 8 * 4096 + 7), "0 <= s1 <= 4096", "0 <= s2 <= 4096", "0 <= s3 <= 4096"], timeout=240 if tier == "quick" else 900,
           desc="real copyto over a file of symbolic size with up to three short reads of symbolic shortfall and opaque chunks: writes are contiguous from 0 and end at N; the file is closed",
           bounds="N <= %d bytes, first three reads short by 0..4096 (symbolic)" % (4 * 4096 + 7 if tier == "quick" else 8 * 4096 + 7), functions=["pygopherd.handlers.base.VFS_Real.copyto"]),
        Ob(id="C04.3-size-truth", body="harness.C04:body_size", sig="i: int", pre=["0 <= i < %d" % len(SIZE_CASES)], timeout=120,
           desc="each document handler on its fixture advertises a size that is unknown or equals the bytes it writes (file, HTML, gzip via decompressor, TAL expansion, mbox/Maildir message, script, URL page, ZIP member)",
           bounds="%d (handler, fixture) pairs run on the real testdata; index symbolic" % len(SIZE_CASES),
           functions=["handlers.*.getentry/write", "GopherEntry.populatefromfs"]),
        Ob(id="C04.3c-tls-sink", body="harness.C04:body_tls_sink", sig="i: int", pre=["0 <= i < %d" % len(TLS_CASES)], timeout=120,
           desc="documents of handlers that use child processes (decompressors, scripts), of ZIP members and of plain files written to a TLS connection: every byte goes through the connection object, none to the raw socket descriptor under it; the bytes equal the plaintext delivery",
           bounds="%d (handler, fixture) pairs on the real testdata, TLS and plaintext sink (run at import; index symbolic)" % len(TLS_CASES), functions=["handlers.file.CompressedFileHandler.write", "handlers.scriptexec.ExecHandler.write", "handlers.ZIP.ZIPHandler.write", "VFS_Real.copyto"]),
        Ob(id="C04.4-head", body="harness.C04:body_head", sig="mt: int, hasmtime: bool, isdir: bool, notfound: bool", pre=["0 <= mt <= 4"], timeout=180,
           desc="HTTP HEAD writes exactly GET's status line and headers and no body (documents, menus, not-found), for symbolic MIME type / mtime presence",
           bounds="5 MIME types x mtime x document/menu x found/not-found (symbolic)", functions=["protocols.http.HTTPProtocol.handle/filenotfound"]),
        Ob(id="C04.5-mime", body="harness.C04:body_mime", sig="tkind: int, ekind: int, preset: bool", pre=["0 <= tkind <= 3", "0 <= ekind <= 2"], timeout=120,
           desc="populatefromfs asks the MIME tables about the selector and advertises type/encoding/encoded type/size as documented for every (type, encoding) answer",
           bounds="4 type answers x 3 encoding answers x preset type (symbolic)", functions=["GopherEntry.populatefromfs/guesstype"]),
    ]
    n = 2 if tier == "quick" else 3
    for pk in (0, 2, 3, 4, 5, 6):
        for wh in ([1] if tier == "quick" else [0, 1, 2]):
            obs.append(Ob(id="C04.8-bytes[%s%s]" % (dl.PROTO_NAMES[pk], "" if tier == "quick" else ",where=%d" % wh), body="harness.C04:body_bytes", sig="p: int, html: bool, k: int, where: int, listing: bool",
                          pre=["p == %d" % pk, ("k in %r" % (REP_BYTES,)) if tier == "quick" else "0 <= k <= 255", "where == %d" % wh], timeout=300 if tier == "quick" else 1500,
                          desc="%s: a text / HTML file with an arbitrary byte %s its <title>, through the real handler chain: document request succeeds with the file's bytes as body; the directory listing succeeds and names the file" % (dl.PROTO_NAMES[pk], ["before", "inside", "after"][wh]),
                          bounds="byte value %s, html/plain, document/listing (symbolic)" % ("from 16 class representatives (NUL, CR, LF, markup, ASCII, UTF-8 continuation/lead/invalid bytes)" if tier == "quick" else "0..255"),
                          functions=["handlers.html.HTMLFileTitleHandler.getentry", "handlers.file.FileHandler.getentry/write", "HandlerMultiplexer.getHandler", "protocols.*.handle"]))
    obs.append(Ob(id="C04.6-wap", body="harness.C04:body_wap", sig="l1: str, l2: str, final_nl: bool",
                  pre=["len(l1) <= %d" % n, "len(l2) <= %d" % (1 if tier == "quick" else 2), "all(c in 'a <&' + chr(9) + chr(11) + chr(12) + chr(13) + chr(0x1c) + chr(0x85) for c in l1 + l2)"],
                  timeout=300 if tier == "quick" else 1200,
                  desc="WAP text-to-WML: one escaped output line per LF-delimited input line (paragraph break for blank ones), unescaping gives the line without trailing blanks",
                  bounds="two lines |l1| <= %d, |l2| <= %d over {a SPACE < & TAB VT FF CR FS NEL}" % (n, 1 if tier == "quick" else 2), functions=["protocols.wap.WAPProtocol.handlerwrite"]))
    for kind, name in ((0, "http"), (1, "wap")):
        obs.append(Ob(id="C04.7-selector-decoding[%s]" % name, body="harness.C01:body_decode", sig="kind: int, path: str",
                      pre=["kind == %d" % kind, "1 <= len(path) <= %d" % (3 if tier == "quick" else 4), "all(c in '/.%2eE' + chr(92) + 'a?' for c in path)", "path[0] == '/'"],
                      timeout=240 if tier == "quick" else 900,
                      desc="the file a URL names is the percent-decoding of its path part: the path is split from the query at the first raw '?' and only then decoded, exactly once (a name containing %%3F is not cut)",
                      bounds="request path symbolic over {/ . %% 2 e E \\ a ?}, |path| <= %d; unquote = tagging stub" % (3 if tier == "quick" else 4),
                      functions=["protocols.http.HTTPProtocol.handle"]))
    return obs
