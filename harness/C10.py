"""C10 -- the directory cache is transparent and never older than its lifetime."""
from __future__ import annotations

import vk.hx as hx
from harness import dirlib as dl
from vk import memvfs as mv
from vk.driver import Ob

META = {
    "level": "other",
    "technique": "bounded symbolic execution (CrossHair/z3) of the real cache code as a two-request history with symbolic clock, lifetime, directory versions and protocols; QF_FP lemma (z3+cvc5) for the float clock",
    "claim": "The real DirHandler.loadcache/savecache/getdirlist and protocol handle() are executed over an in-memory VFS with an integer clock: "
    "a request at time m (protocol A) followed by directory mutation and a request at time t>=m (protocol B), with m, t, the lifetime T, the "
    "two directory versions and writability symbolic. On every path the second reply equals B's fresh rendering of the version at time m iff "
    "t-m<T (and the cache file is then not rewritten), else B's fresh rendering of the current version. Because the first request's post-state "
    "is the general cache state (birth time, payload = listing at birth), this is the inductive step for histories of any length. A QF_FP lemma "
    "shows the float subtraction cannot make a stale entry look fresh. A request for another spelling of the directory ('/d' + symbolic tail over / . x backslash) "
    "followed by a request for '/d' within the lifetime returns the directory's own listing (no foreign listing can be planted in its cache file).",
    "trusted": "CrossHair/z3; cvc5 for the FP lemma; MemVFS/PickleStub/Clock stand for the OS, pickle and time.",
    "explanation": "Two-step symbolic history (inductive step of the cache state machine) + unbounded-integer freshness obligation + FP lemma.",
    "assumptions": [
        "integer clock (transferred to the float clock by the QF_FP lemma C10.6 for 1 <= t <= 2^33 and integer-valued mtime/lifetime)",
        "listing generation and cache write are one instant; nobody else writes the cache file",
        "pickle round-trips entry lists faithfully (validated concretely on real GopherEntry lists in C10.5)",
        "directory versions: three concrete variants of a two/three-entry directory (file, new file, sub-directory)",
    ],
}

VERSIONS = [
    ["a.txt", "s"],
    ["a.txt", "n.txt", "s"],
    ["s"],
    ["a.txt", "a.txt.abstract", "s"],   # same entries as version 0 plus a sidecar abstract for a.txt
]


def _nodes(v):
    nodes = {"/": mv.Dir(["d"]), "/d": mv.Dir(list(VERSIONS[v]), mtime=10)}
    for name in VERSIONS[v]:
        if name == "s":
            nodes["/d/s"] = mv.Dir([], mtime=10)
        elif name.endswith(".abstract"):
            nodes["/d/" + name] = mv.File(b"An abstract added later\n", mtime=10)
        else:
            nodes["/d/" + name] = mv.File(b"data\n", mtime=10)
    return nodes


def _request(p, cfg, vfs):
    w = hx.ListWriter()
    proto = dl.make_protocol(p, "/d", cfg, w)
    proto.handle()
    return w.getvalue()


def _fresh(p, v):
    """Protocol p's rendering of version v generated from scratch (no cache file, lifetime 0)."""
    cfg = dl.config({("handlers.dir.DirHandler", "cachetime"): 0})
    vfs = mv.MemVFS(cfg, _nodes(v))
    dl.install_dir_env(vfs, 50, dl.PickleStub())
    try:
        return _request(p, cfg, vfs)
    finally:
        dl.restore_dir_env()


REF = {}
for _p in range(7):
    for _v in range(len(VERSIONS)):
        REF[(_p, _v)] = _fresh(_p, _v)


VPAIRS = [(x, y) for x in range(3) for y in range(3)] + [(0, 3), (3, 0)]


def body_history(a: int, b: int, vv: int, m: int, dt: int, T: int, writable: bool) -> bool:
    vb, v = VPAIRS[vv]
    cfg = dl.config({("handlers.dir.DirHandler", "cachetime"): T})
    vfs = mv.MemVFS(cfg, _nodes(vb), writable=writable)
    ps = dl.PickleStub()
    dirmod = dl.install_dir_env(vfs, m, ps)
    cachesel = "/d/" + cfg.get("handlers.dir.DirHandler", "cachefile")

    def on_write(sel, chunks):
        vfs.nodes[sel] = mv.File(b"PICKLE", mtime=dirmod.time.t)

    vfs.on_write = on_write
    try:
        r1 = _request(a, cfg, vfs)
        hx.require(r1 == REF[(a, vb)], "C10:first-listing-wrong", lambda: "proto=%s version=%d" % (dl.PROTO_NAMES[a], vb))
        if writable:
            hx.require(ps.dumps == [cachesel], "C10:cache-not-written", lambda: "dumps=%r" % (ps.dumps,))
        # mutate the directory, advance the clock
        newnodes = _nodes(v)
        if cachesel in vfs.nodes:
            newnodes[cachesel] = vfs.nodes[cachesel]
        vfs.nodes = newnodes
        dirmod.time.t = m + dt
        ndumps = len(ps.dumps)
        hx.reset_lazies()
        r2 = _request(b, cfg, vfs)
    finally:
        dl.restore_dir_env()
    hx.reach()
    hit = writable and dt < T
    if hit:
        hx.require(r2 == REF[(b, vb)], "C10:cached-listing-differs-from-listing-at-birth",
                   lambda: "written by %s read by %s vb=%d v=%d dt=%d T=%d" % (dl.PROTO_NAMES[a], dl.PROTO_NAMES[b], vb, v, dt, T))
        hx.require(len(ps.dumps) == ndumps, "C10:cache-refreshed-on-hit", lambda: "dumps=%r" % (ps.dumps,))
        hx.require(vfs.nodes[cachesel].mtime == m, "C10:cache-age-refreshed-on-hit", lambda: "mtime=%r m=%d" % (vfs.nodes[cachesel].mtime, m))
    else:
        if r2 != REF[(b, v)]:
            stale = r2 == REF[(b, vb)]
            raise hx.Violation("C10:stale-listing-served" if stale else "C10:listing-wrong-after-expiry",
                               "written by %s read by %s vb=%d v=%d dt=%d T=%d writable=%s" % (dl.PROTO_NAMES[a], dl.PROTO_NAMES[b], vb, v, dt, T, writable))
        if writable:
            hx.require(len(ps.dumps) == ndumps + 1 and vfs.nodes[cachesel].mtime == m + dt, "C10:cache-not-renewed-after-expiry", lambda: "dumps=%r" % (ps.dumps,))
        if v == 3:
            # independent of the reference table: the abstract that now exists must be in the regenerated listing
            hx.require(b"An abstract added later" in r2, "C10:regenerated-listing-misses-current-metadata", lambda: "read by %s: %r" % (dl.PROTO_NAMES[b], r2[:200]))
    return True


class DotVFS(mv.MemVFS):
    """MemVFS that, like the OS, resolves `.` path components (and repeated / trailing slashes), and
    names files it opens by their resolved path: `/d/.` IS `/d`."""

    def _norm(self, selector):
        parts = [c for c in selector.split("/") if c not in ("", ".")]
        return "/" + "/".join(parts)

    def open(self, selector, mode, errors=None):
        f = mv.MemVFS.open(self, selector, mode, errors)
        f.selector = self._norm(selector)
        return f


def body_alias(a: int, b: int, tail: str) -> bool:
    """A request for another spelling of the directory (`/d` + tail) must not change what a request
    for `/d` returns within the cache lifetime: whatever the first request leaves in the directory's
    cache file is a listing of THAT directory."""
    cfg = dl.config({("handlers.dir.DirHandler", "cachetime"): 100})
    vfs = DotVFS(cfg, _nodes(0))
    ps = dl.PickleStub()
    dirmod = dl.install_dir_env(vfs, 50, ps)

    def on_write(sel, chunks):
        vfs.nodes[vfs._norm(sel)] = mv.File(b"PICKLE", mtime=dirmod.time.t)

    vfs.on_write = on_write
    hx.silence_logging()
    try:
        w = hx.ListWriter()
        try:
            dl.make_protocol(a, "/d" + tail, cfg, w).handle()
        except AssertionError:
            return True  # not a request this protocol's framing accepts
        hx.reset_lazies()
        dirmod.time.t = 51
        r2 = _request(b, cfg, vfs)
    finally:
        dl.restore_dir_env()
    hx.reach()
    hx.require(r2 == REF[(b, 0)], "C10:listing-after-request-for-another-spelling-of-the-directory",
               lambda: "first request %s for %r, then %s for '/d': %r instead of %r" % (dl.PROTO_NAMES[a], "/d" + tail, dl.PROTO_NAMES[b], r2[:200], REF[(b, 0)][:200]))
    return True


def body_freshness(t: int, m: int, T: int, present: bool, writable: bool) -> bool:
    """loadcache in isolation, unbounded integers: the cache is used iff it exists, the VFS is
    writable (i.e. the server itself wrote it) and t - m < T."""
    from pygopherd.handlers import dir as dirmod

    cfg = dl.config({("handlers.dir.DirHandler", "cachetime"): T})
    nodes = _nodes(0)
    cachesel = "/d/" + cfg.get("handlers.dir.DirHandler", "cachefile")
    if present:
        nodes[cachesel] = mv.File(b"PICKLE", mtime=m)
    vfs = mv.MemVFS(cfg, nodes, writable=writable)
    ps = dl.PickleStub()
    ps.store[cachesel] = [[]]  # one pickled object: an empty listing
    dl.install_dir_env(vfs, t, ps)
    try:
        proto = hx.ns(server=hx.make_server(cfg), requesthandler=hx.make_rh(False), config=cfg)
        h = dirmod.DirHandler("/d", "", proto, cfg, vfs.stat("/d"), vfs)
        used = h.loadcache()
    finally:
        dl.restore_dir_env()
    hx.reach()
    expect = present and writable and (t - m < T)
    hx.require(bool(used) == expect, "C10:freshness-test-wrong", lambda: "t=%d m=%d T=%d present=%s writable=%s used=%s" % (t, m, T, present, writable, used))
    hx.require(bool(h.fromcache) == expect, "C10:fromcache-flag-wrong", lambda: "fromcache=%r expect=%r" % (h.fromcache, expect))
    return True


def body_umn_skip(T: int, dt: int) -> bool:
    """UMNDirHandler.prepare merges link files and sorts exactly when the listing was not taken
    from the cache (a cached payload is already merged and sorted)."""
    from pygopherd.handlers import UMN

    cfg = dl.config({("handlers.dir.DirHandler", "cachetime"): T})
    nodes = _nodes(1)
    nodes["/d"].names = [".Links"] + list(nodes["/d"].names)
    nodes["/d/.Links"] = mv.File(b"Name=Zed first\nPath=./n.txt\nNumb=1\n\nName=Remote\nType=1\nPath=/x\nHost=h.example\nPort=70\n")
    vfs = mv.MemVFS(cfg, nodes)
    ps = dl.PickleStub()
    dirmod = dl.install_dir_env(vfs, 100, ps)
    vfs.on_write = lambda sel, chunks: vfs.nodes.__setitem__(sel, mv.File(b"PICKLE", mtime=dirmod.time.t))
    try:
        proto = hx.ns(server=hx.make_server(cfg), requesthandler=hx.make_rh(False), config=cfg)
        h1 = UMN.UMNDirHandler("/d", "", proto, cfg, vfs.stat("/d"), vfs)
        h1.prepare()
        l1 = [(e.selector, e.name, e.num) for e in h1.getdirlist()]
        dirmod.time.t = 100 + dt
        h2 = UMN.UMNDirHandler("/d", "", proto, cfg, vfs.stat("/d"), vfs)
        h2.prepare()
        l2 = [(e.selector, e.name, e.num) for e in h2.getdirlist()]
    finally:
        dl.restore_dir_env()
    hx.reach()
    hx.require(l1[0][0] == "/d/n.txt" and l1[0][1] == "Zed first", "C10:umn-merge-missing", lambda: repr(l1))
    hx.require(l2 == l1, "C10:umn-listing-differs-between-cache-hit-and-miss", lambda: "hit=%s first=%r second=%r" % (dt < T, l1, l2))
    return True


def fn_pickle_roundtrip():
    """Translation validation of the PickleStub contract 'load(dump(x)) == x': the real pickle
    round-trips real GopherEntry lists (produced by the real handlers on the repo's testdata)
    attribute for attribute."""
    import io
    import pickle
    import time as _t

    t0 = _t.time()
    from pygopherd.handlers import HandlerMultiplexer
    from pygopherd.protocols.rfc1436 import GopherProtocol

    hx.silence_logging()
    samples, n = [], 0
    for sel in ["/", "/pygopherd", "/gopherplus", "/bucktooth", "/testdata.zip/pygopherd"]:
        hx.reset_lazies()
        cfg = hx.real_config(full_handlers=(".zip" in sel))
        proto = GopherProtocol(sel, hx.make_server(cfg), hx.make_rh(False), None, hx.ListWriter(), cfg)
        h = HandlerMultiplexer.getHandler(sel if sel != "/" else "/", None, proto, cfg)
        h.prepare()
        entries = h.getdirlist()
        buf = io.BytesIO()
        pickle.dump(entries, buf, 1)
        back = pickle.loads(buf.getvalue())
        if len(back) != len(entries):
            return {"status": "violation", "detail": "length differs for " + sel, "violations": [{"body": "harness.C10:replay_pickle", "kwargs": {"sel": sel}, "sig": "C10:entry-changes-through-the-cache-file"}]}
        for e1, e2 in zip(entries, back):
            d1 = {k: v for k, v in vars(e1).items() if k != "config"}
            d2 = {k: v for k, v in vars(e2).items() if k != "config"}
            n += 1
            if d1 != d2:
                # what the cache file gives back is not what was stored: a cached listing differs from the listing at birth
                return {"status": "violation", "detail": "pickle round trip changed an entry of %s: %r vs %r" % (sel, {k: d1[k] for k in d1 if d1.get(k) != d2.get(k)}, {k: d2.get(k) for k in d1 if d1.get(k) != d2.get(k)}),
                        "violations": [{"body": "harness.C10:replay_pickle", "kwargs": {"sel": sel}, "sig": "C10:entry-changes-through-the-cache-file"}]}
        samples.append({"dir": sel, "entries": len(entries), "pickle_bytes": len(buf.getvalue())})
    return {"status": "discharged", "queries": n, "detail": "%d entries of 5 real directories round-trip through pickle protocol 1 unchanged" % n,
            "samples": samples, "solver_s": 0.0, "twin": "n/a", "functions": ["pickle (stdlib) on pygopherd.gopherentry.GopherEntry"], "notes": "concrete validation of a stub contract, not a solver verdict"}


def replay_pickle(sel: str) -> bool:
    import io
    import pickle

    from pygopherd.handlers import HandlerMultiplexer
    from pygopherd.protocols.rfc1436 import GopherProtocol

    hx.silence_logging()
    hx.reset_lazies()
    cfg = hx.real_config(full_handlers=(".zip" in sel))
    proto = GopherProtocol(sel, hx.make_server(cfg), hx.make_rh(False), None, hx.ListWriter(), cfg)
    h = HandlerMultiplexer.getHandler(sel, None, proto, cfg)
    h.prepare()
    entries = h.getdirlist()
    buf = io.BytesIO()
    pickle.dump(entries, buf, 1)
    back = pickle.loads(buf.getvalue())
    a = [{k: v for k, v in vars(e).items() if k != "config"} for e in entries]
    b = [{k: v for k, v in vars(e).items() if k != "config"} for e in back]
    hx.require(a == b, "C10:entry-changes-through-the-cache-file", lambda: "listing of %s" % sel)
    return True


def obligations(tier, seed):
    obs = [
        Ob(
            id="C10.1-freshness",
            body="harness.C10:body_freshness",
            sig="t: int, m: int, T: int, present: bool, writable: bool",
            pre=["m >= 0", "t >= m", "T >= 0"],
            desc="real DirHandler.loadcache: the cache file is used iff it exists, the VFS is writable and t - m < T (T = 0: never)",
            bounds="unbounded integers t >= m >= 0, T >= 0 (symbolic), presence and writability symbolic",
            timeout=60,
            functions=["handlers.dir.DirHandler.loadcache"],
        ),
        Ob(
            id="C10.4-umn-skip",
            body="harness.C10:body_umn_skip",
            sig="T: int, dt: int",
            pre=["0 <= T <= 1000", "0 <= dt <= 2000"],
            desc="UMNDirHandler: listing (with a .Links override and an added link) is identical on a cache hit and on a miss (merge+sort skipped exactly on a hit)",
            bounds="lifetime 0..1000, clock advance 0..2000 (symbolic)",
            timeout=120,
            functions=["handlers.UMN.UMNDirHandler.prepare", "MergeLinkFiles", "handlers.dir.DirHandler.prepare/getdirlist/savecache"],
        ),
        Ob(
            id="C10.5-pickle-contract",
            body="harness.C10:fn_pickle_roundtrip",
            kind="fn", engine="TV", twin=False,
            desc="real pickle round trip of real GopherEntry lists preserves every attribute (validates PickleStub)",
            bounds="5 real directories of the repo's testdata (concrete)",
            timeout=120,
        ),
        Ob(
            id="C10.6-fp-lemma",
            body="vk.smt:fn_freshness_fp_lemma",
            kind="fn", engine="SMT", twin=False,
            desc="QF_FP lemma: for doubles 1<=t<=2^33 and integer-valued 0<=m,T<=2^33 the float test (t-m) < T never holds when the exact difference is >= T "
                 "(comparison operator and operand order read from the AST of loadcache)",
            bounds="t in [1, 2^33] any double; m, T integer-valued doubles in [0, 2^33]",
            timeout=400,
        ),
    ]
    pairs_quick = [(1, 2), (2, 0), (0, 1), (4, 3), (5, 6), (6, 4), (3, 5), (1, 1)]
    pairs = [(a, b) for a in range(7) for b in range(7)]
    for (a, b) in pairs:
        obs.append(Ob(
            id="C10.2-history[%s->%s]" % (dl.PROTO_NAMES[a], dl.PROTO_NAMES[b]),
            body="harness.C10:body_history",
            sig="a: int, b: int, vv: int, m: int, dt: int, T: int, writable: bool",
            pre=["a == %d" % a, "b == %d" % b, "0 <= vv <= 10", "0 <= m", "0 <= dt", "0 <= T"],
            desc="request via %s at time m, directory mutation, request via %s at time m+dt: second reply is the fresh rendering of the version at birth "
                 "iff writable and dt < T (no rewrite, age not refreshed), else of the current version (and the cache is renewed)" % (dl.PROTO_NAMES[a], dl.PROTO_NAMES[b]),
            bounds="3x3 (version at birth, current version) pairs + sidecar abstract added/removed; unbounded integer m, dt, T >= 0; writability (all symbolic)",
            timeout=240 if tier == "quick" else 600,
            functions=["handlers.dir.DirHandler.prepare/loadcache/savecache/getdirlist", "protocols.*.handle/writedir/renderobjinfo"],
        ))
    for a in ((0, 2, 4) if tier == "quick" else range(7)):
        obs.append(Ob(id="C10.7-alias[%s]" % dl.PROTO_NAMES[a], body="harness.C10:body_alias", sig="a: int, b: int, tail: str",
                      pre=["a == %d" % a, "b == 0" if tier == "quick" else "0 <= b <= 6", "len(tail) <= 2", "all(c in '/.x' + chr(92) for c in tail)"], timeout=300 if tier == "quick" else 900,
                      desc="a %s request for another spelling of the directory selector ('/d' + symbolic tail) followed, within the lifetime, by a request for '/d': the second listing is the directory's listing (the first request cannot plant a foreign listing in the directory's cache file)" % dl.PROTO_NAMES[a],
                      bounds="|tail| <= 2 over {/ . x \\}; VFS resolves '.' components and slashes like the OS", functions=["handlers.dir.DirHandler.prepare/loadcache/savecache", "handlers.base.BaseHandler.isrequestsecure", "protocols.*.handle"]))
    return obs
