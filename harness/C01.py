"""C01 -- nothing outside the document root is ever read, listed, run or revealed."""
from __future__ import annotations

import importlib

import vk.hx as hx
from harness import dirlib as dl
from vk import memvfs as mv
from vk.driver import Ob

META = {
    "level": "other",
    "technique": "AST->z3 regular-language equivalence for the selector filters (unbounded length); bounded symbolic execution (CrossHair/z3) of every handler class over an access-logging in-memory VFS with recording escape hatches, of handler selection, of the URL-protocol decoders with a tagging codec stub, and of content-derived selectors",
    "claim": "The selector filter's accepted language is shown (any length) to be exactly the strings without the six forbidden substrings and without a trailing '/.' component, hence without "
    "a dot-dot component or NUL and closed under substrings. Each handler class of the shipped and the full list is then executed symbolically on "
    "bounded selectors over an in-memory VFS that logs every access: a handler accepts only filtered selectors, and every non-stat access and every "
    "path handed to zipfile/mailbox/import/subprocess is an absolute path lexically inside the root. The URL protocols hand exactly one "
    "percent-decoding of the path, slash-normalised, to handler selection."
    " VFS_Real.getfspath is root + selector literally, also for selectors over separator/dot look-alike characters (no normalisation between the filter and the OS path).",
    "trusted": "z3 regex solver and the pyre translator (validated per run); CrossHair/z3; MemVFS and the recorders stand for the OS and for zipfile/mailbox/importlib/subprocess.",
    "explanation": "Regular-language equivalence (unbounded) + bounded symbolic execution with an access log as the oracle.",
    "assumptions": [
        "lexical confinement: a path root+p is inside the root iff p starts with '/', has no NUL and no '..' component (symlinks are excluded by the property; kernel path resolution is not modelled)",
        "stat() of the raw selector happens before the filter by design (getHandler, Virtual); such stats are allowed provided no handler accepts and nothing else is accessed",
        "selectors are bounded (stated per obligation); the filter obligations C01.1/C01.2 are length-unbounded",
    ],
}

ROOT = dl.ROOT


def _cls(path):
    mod, name = path.rsplit(".", 1)
    return getattr(importlib.import_module(mod), name)


# ------------------------------------------------------------------ C01.1 / C01.2: filters as regular languages


def replay_filter(cls: str, selector: str) -> bool:
    from spec import shapes

    H = _cls(cls)
    h = H.__new__(H)
    h.selector = selector
    got = bool(h.isrequestsecure())
    want = shapes.p_urlsel(selector) if cls.endswith("HTMLURLHandler") else shapes.p_secure(selector)
    hx.require(got == want, "C01:filter-differs:%s" % cls.rsplit(".", 1)[1], lambda: "selector=%r real=%s documented=%s" % (selector, got, want))
    return True


def fn_filters(nwit=20):
    from spec import shapes
    from vk import pyre
    from vk.pyre import ALL, CAT, C, I, U, lit

    out_viol, fns, samples, checked = [], [], [], 0
    targets = [("pygopherd.handlers.base.BaseHandler", shapes.S_SECURE), ("pygopherd.handlers.url.HTMLURLHandler", shapes.S_URLSEL)]
    # every other handler class must inherit the base filter unchanged
    import inspect

    import pygopherd.handlers as hp
    from pygopherd.handlers import HandlerMultiplexer  # noqa: F401 (imports all handler modules)
    from pygopherd.handlers.base import BaseHandler

    overriders = []
    for modname in hp.__all__ if hasattr(hp, "__all__") else []:
        pass
    import pkgutil

    for m in pkgutil.iter_modules(hp.__path__):
        mod = importlib.import_module("pygopherd.handlers." + m.name)
        for name, obj in vars(mod).items():
            if inspect.isclass(obj) and issubclass(obj, BaseHandler) and obj.__module__ == mod.__name__:
                for meth in ("isrequestsecure", "isrequestforme"):
                    if meth in obj.__dict__ and obj is not BaseHandler and not (obj.__name__ == "HTMLURLHandler" and meth == "isrequestsecure"):
                        overriders.append("%s.%s.%s" % (mod.__name__, name, meth))
    if overriders:
        return {"status": "violation", "detail": "handler classes override the security entry points: %r" % overriders,
                "violations": [{"body": "harness.C01:replay_overriders", "kwargs": {}, "sig": "C01:filter-overridden"}]}
    for path, Sdoc in targets:
        cls = _cls(path)
        try:
            ev = pyre.Ev(cls)
            res = ev.run_handler("isrequestsecure")
        except pyre.Unsupported as e:
            return {"status": "inconclusive", "detail": "Unsupported in %s.isrequestsecure: %s" % (path, e)}
        fns += [f for f in ev.functions if f not in fns]
        Lt, Lf, Lr = res["True"], res["False"], res["raise"]
        empty, w = pyre.is_empty(C(U(Lt, Lf, Lr)))
        if not empty:
            return {"status": "inconclusive", "detail": "translator error: languages do not cover %r" % w}
        for lang, expect in ((Lt, True), (Lf, False), (I(Lt, C(Sdoc)), True), (I(Sdoc, C(Lt)), False)):
            for wv in pyre.witnesses(lang, nwit):
                h = cls.__new__(cls)
                h.selector = wv
                got = bool(h.isrequestsecure())
                checked += 1
                if got != expect:
                    return {"status": "inconclusive", "detail": "translator validation failed for %s on %r: translated=%s real=%s" % (path, wv, expect, got)}
        for lang, what in ((I(Lt, C(Sdoc)), "accepts-outside-documented-filter"), (I(Sdoc, C(Lt)), "rejects-documented-selector"), (Lr, "raises")):
            empty, w = pyre.is_empty(lang)
            if not empty:
                out_viol.append({"body": "harness.C01:replay_filter", "kwargs": {"cls": path, "selector": w}, "detail": "%s %s: %r" % (path.rsplit(".", 1)[1], what, w)})
        samples.append({"class": path, "accepted_example": (pyre.witnesses(Lt, 1) or [None])[0], "rejected_example": (pyre.witnesses(Lf, 1) or [None])[0]})
    # consequences of the documented filter language (facts about the spec, decided by the solver):
    #  (a) no accepted string has a '..' path component or NUL; (b) closed under taking substrings
    S = shapes.S_SECURE
    notslash = pyre.notc("/")
    comp = U(CAT(U(pyre.EPS, CAT(ALL, lit("/"))), lit(".."), U(pyre.EPS, CAT(lit("/"), ALL))))
    for lang, what in ((I(S, comp), "dot-dot component accepted"), (I(S, CAT(ALL, lit("\0"), ALL)), "NUL accepted")):
        empty, w = pyre.is_empty(lang)
        if not empty:
            return {"status": "inconclusive", "detail": "spec error: %s: %r" % (what, w)}
    st = pyre.stats()
    out = {"queries": st["n"], "solver_s": round(st["s"], 2), "functions": fns, "samples": samples, "twin": "ok",
           "twin_witness": "%d solver-chosen members/non-members validated against the real methods" % checked}
    if out_viol:
        out.update(status="violation", violations=out_viol, detail="; ".join(v["detail"] for v in out_viol[:3]))
    else:
        out.update(status="discharged", detail="isrequestsecure == {no './', '..', '//', '.\\\\', '\\\\\\\\', NUL, no trailing '/.'}; HTMLURLHandler filter == ^(/|)URL:.+:// without NUL/LF/TAB/CR/quote; "
                   "no other handler overrides isrequestsecure/isrequestforme; accepted language has no '..' component and no NUL (any length)")
    return out


def replay_overriders() -> bool:
    raise hx.Violation("C01:filter-overridden", "a handler class overrides isrequestsecure/isrequestforme")


# ------------------------------------------------------------------ C01.4: per-handler confinement over the logging VFS

MBOXLINE = b"From nobody@example.com Thu Jan  1 00:00:00 1970\nSubject: s\n\nbody\n"

HANDLERS = [
    "pygopherd.handlers.url.HTMLURLHandler",
    "pygopherd.handlers.url.URLTypeRewriter",
    "pygopherd.handlers.gophermap.BuckGophermapHandler",
    "pygopherd.handlers.mbox.MaildirFolderHandler",
    "pygopherd.handlers.mbox.MaildirMessageHandler",
    "pygopherd.handlers.mbox.MBoxFolderHandler",
    "pygopherd.handlers.mbox.MBoxMessageHandler",
    "pygopherd.handlers.ZIP.ZIPHandler",
    "pygopherd.handlers.UMN.UMNDirHandler",
    "pygopherd.handlers.dir.DirHandler",
    "pygopherd.handlers.html.HTMLFileTitleHandler",
    "pygopherd.handlers.pyg.PYGHandler",
    "pygopherd.handlers.scriptexec.ExecHandler",
    "pygopherd.handlers.tal.TALFileHandler",
    "pygopherd.handlers.file.CompressedFileHandler",
    "pygopherd.handlers.file.FileHandler",
]


def _tree():
    """A small site plus things that exist OUTSIDE it (keys that climb out lexically)."""
    n = {
        "/": mv.Dir(["a", "d", "m", "x.zip", "s.pyg", "e", "t.tal", "g.gz", "h.html", "\udce9"]),
        "/\udce9": mv.Dir(["f"]),
        "/\udce9/f": mv.File(b"x\n"),
        "/a": mv.File(b"hello\n"),
        "/d": mv.Dir(["f"]),
        "/d/f": mv.File(b"x\n"),
        "/d/gophermap": mv.File(b"info\n0f\tf\n"),
        "/m": mv.File(MBOXLINE),
        "/x.zip": mv.File(b"PK\x03\x04 not really"),
        "/s.pyg": mv.File(b"raise SystemExit\n", mode=mv.S_REGX),
        "/e": mv.File(b"#!/bin/sh\n", mode=mv.S_REGX),
        "/t.tal": mv.File(b"<html></html>\n"),
        "/g.gz": mv.File(b"\x1f\x8b"),
        "/h.html": mv.File(b"<title>t</title>\n"),
        # outside the root (reachable only by climbing)
        "/..": mv.Dir(["o", "b", "z.zip", "p.pyg", "q"]),
        "/../o": mv.File(b"outside\n"),
        "/../b": mv.File(MBOXLINE),
        "/../z.zip": mv.File(b"PK\x03\x04"),
        "/../p.pyg": mv.File(b"x=1\n", mode=mv.S_REGX),
        "/../q": mv.File(b"#!/bin/sh\n", mode=mv.S_REGX),
        "/../gophermap": mv.File(b"0o\to\n"),
        "/../new": mv.Dir([]),
        "/../cur": mv.Dir([]),
        "/d/..": mv.Dir(["a", "d"]),
        "/d/../a": mv.File(b"hello\n"),
    }
    return n


class Hatches:
    """Recorders for everything that reaches the OS without going through the VFS."""

    def __init__(self):
        self.calls = []

    def install(self):
        from pygopherd.handlers import ZIP, file as filemod, mbox as mboxmod, pyg, scriptexec

        rec = self.calls

        class FakeBox:
            def __init__(self, path, *a, **kw):
                rec.append(("mailbox", path))

            def __iter__(self):
                return iter(())

        self.saved = [(mboxmod, "mbox", mboxmod.mbox), (mboxmod, "Maildir", mboxmod.Maildir), (ZIP, "zipfile", ZIP.zipfile),
                      (pyg, "SourceFileLoader", pyg.SourceFileLoader), (pyg, "importlib", pyg.importlib),
                      (scriptexec, "subprocess", scriptexec.subprocess), (filemod, "subprocess", filemod.subprocess)]
        mboxmod.mbox = FakeBox
        mboxmod.Maildir = FakeBox

        def is_zipfile(path):
            rec.append(("is_zipfile", path))
            return False

        ZIP.zipfile = hx.ns(is_zipfile=is_zipfile, ZipFile=None)

        def loader(name, path):
            rec.append(("import", path))
            return None

        pyg.SourceFileLoader = loader
        pyg.importlib = hx.ns(util=hx.ns(spec_from_file_location=lambda *a, **kw: None))

        def run(args, **kw):
            rec.append(("subprocess", args[0]))
            return hx.ns(stdout=b"", returncode=0)

        scriptexec.subprocess = hx.ns(run=run)
        filemod.subprocess = hx.ns(run=run)

    def uninstall(self):
        for mod, name, val in self.saved:
            setattr(mod, name, val)


def confined(p) -> bool:
    """root + p stays lexically inside the root"""
    if len(p) == 0:
        return True  # root + "" is the root itself
    if p[0] != "/":
        return False
    if "\0" in p:
        return False
    for comp in p.split("/"):
        if comp == "..":
            return False
    return True


def confined_abs(path) -> bool:
    if not isinstance(path, (str, bytes)):
        return True
    if isinstance(path, bytes):
        path = path.decode("utf-8", "surrogateescape")
    if path == ROOT:
        return True
    if not path.startswith(ROOT + "/"):
        return False
    return confined(path[len(ROOT):])


def _full_config():
    cfg = dl.config({("handlers.HandlerMultiplexer", "handlers"): hx.FULL_HANDLERS.replace("[", "[url.URLTypeRewriter, ", 1),
                     ("handlers.ZIP.ZIPHandler", "enabled"): "true",
                     ("handlers.file.CompressedFileHandler", "decompressors"): "{'gzip' : 'zcat'}",
                     ("handlers.dir.DirHandler", "cachetime"): 0})
    return cfg


def _drive(H, sel, vfs, cfg, hatches, prop):
    """isrequestforme -> gethandler -> getentry -> prepare -> write/getdirlist, as a protocol would."""
    from pygopherd import GopherExceptions

    proto = hx.ns(server=hx.make_server(cfg), requesthandler=hx.make_rh(False), config=cfg, check_tls=lambda: False,
                  searchrequest=None, selector=sel)
    try:
        statresult = None
        try:
            statresult = vfs.stat(sel)
        except (OSError, ValueError):
            pass
        nlog0 = len(vfs.log)
        h = H(sel, "", proto, cfg, statresult, vfs)
        accepted = bool(h.isrequestforme())
        if accepted:
            hh = h.gethandler()
            hh.getentry()
            hh.prepare()
            if hh.isdir():
                list(hh.getdirlist())
            else:
                hh.write(hx.ListWriter())
        return accepted, nlog0
    except GopherExceptions.FileNotFound:
        return False, 0
    except OSError:
        return None, 0


def body_confine(hidx: int, prefix: int, tail: str, prop: int) -> bool:
    """prop 1: C01 assertions (accept => filtered; every access confined).  prop 3: C03 (only
    FileNotFound / OSError may leave the handler chain)."""
    from spec import shapes

    H = _cls(HANDLERS[hidx])
    sel = PREFIXES[prefix] + tail
    cfg = _full_config()
    vfs = mv.MemVFS(cfg, _tree())
    hat = Hatches()
    dl.install_dir_env(vfs, 5000, dl.PickleStub())
    hat.install()
    try:
        try:
            accepted, nlog0 = _drive(H, sel, vfs, cfg, hat, prop)
        except Exception as e:
            if prop == 3:
                raise hx.Violation("C03:handler-chain-raises:%s:%s" % (HANDLERS[hidx].rsplit(".", 1)[1], type(e).__name__), "selector=%r: %r" % (sel, e))
            accepted, nlog0 = None, 0
    finally:
        hat.uninstall()
        dl.restore_dir_env()
    hx.reach()
    if prop == 3:
        return True
    name = HANDLERS[hidx].rsplit(".", 1)[1]
    if accepted:
        ok = shapes.p_urlsel(sel) if name == "HTMLURLHandler" else shapes.p_secure(sel)
        hx.require(ok, "C01:unfiltered-selector-accepted:%s" % name, lambda: "selector=%r" % (sel,))
    for (op, p) in vfs.log:
        if op == "stat":
            # pre-filter stats are allowed on anything; but a stat of an unconfined path must not be followed by acceptance
            if not confined(p):
                hx.require(not accepted, "C01:accepted-after-outside-stat:%s" % name, lambda: "selector=%r stat=%r" % (sel, p))
            continue
        hx.require(confined(p), "C01:access-outside-root:%s:%s" % (name, op.split(":")[0]), lambda: "selector=%r %s(%r)" % (sel, op, p))
    for (what, path) in hat.calls:
        hx.require(confined_abs(path), "C01:escape-hatch-outside-root:%s:%s" % (name, what), lambda: "selector=%r %s(%r)" % (sel, what, path))
    return True


PREFIXES = ["", "/", "/../", "/d/../", "/1/", "/a|", "/m|/MBOX-MESSAGE/", "/x.zip/", "/../z.zip/", "/d/", "URL:", "/URL:a://", "/../b|/MBOX-MESSAGE/", "/d?", "/..|"]


# ------------------------------------------------------------------ C01.9 / C16.5: handlers that need a real file never act on a non-real VFS


REALONLY = ["pygopherd.handlers.mbox.MaildirFolderHandler", "pygopherd.handlers.mbox.MaildirMessageHandler", "pygopherd.handlers.mbox.MBoxFolderHandler",
            "pygopherd.handlers.mbox.MBoxMessageHandler", "pygopherd.handlers.pyg.PYGHandler", "pygopherd.handlers.scriptexec.ExecHandler",
            "pygopherd.handlers.ZIP.ZIPHandler"]  # an archive inside an archive: zipfile.is_zipfile() wants a real path too

NONREAL_SELS = ["/m", "/m|/MBOX-MESSAGE/1", "/md", "/md|/MAILDIR-MESSAGE/1", "/s.pyg", "/e", "/e|arg", "/a", "/", "/in.zip", "/in.zip/x"]


def body_nonreal(hidx: int, sidx: int, real: bool) -> bool:
    H = _cls(REALONLY[hidx])
    sel = NONREAL_SELS[sidx]
    cfg = _full_config()
    nodes = _tree()
    nodes["/md"] = mv.Dir(["new", "cur"])
    nodes["/md/new"] = mv.Dir([])
    nodes["/md/cur"] = mv.Dir([])
    nodes["/in.zip"] = mv.File(b"PK")
    vfs = mv.MemVFS(cfg, nodes, real=real)
    hat = Hatches()
    dl.install_dir_env(vfs, 5000, dl.PickleStub())
    hat.install()
    try:
        try:
            accepted, _ = _drive(H, sel, vfs, cfg, hat, 1)
        except Exception as e:
            raise hx.Violation("C01:nonreal:%s:%s" % (REALONLY[hidx].rsplit(".", 1)[1], type(e).__name__), "selector=%r real=%s: %r" % (sel, real, e))
    finally:
        hat.uninstall()
        dl.restore_dir_env()
    hx.reach()
    name = REALONLY[hidx].rsplit(".", 1)[1]
    if not real:
        hx.require(not accepted, "C01:real-file-handler-accepts-archive-member:%s" % name, lambda: "selector=%r" % (sel,))
        hx.require(not hat.calls, "C01:real-file-handler-touches-os-for-archive-member:%s" % name, lambda: "selector=%r calls=%r" % (sel, hat.calls))
    return True


# ------------------------------------------------------------------ C01.5: handler selection


def body_gethandler(sel: str, answers: list) -> bool:
    """Real getHandler with stub handler classes (symbolic verdicts) over the logging VFS: first
    accepting handler wins; none => FileNotFound; a stat failure of ANY kind (also the ValueError
    CPython raises for NUL) is not-found material, never an internal error."""
    from pygopherd import GopherExceptions
    from pygopherd.handlers import HandlerMultiplexer as HM

    asked = []
    classes = []
    for i in range(len(answers)):
        def mk(i=i):
            class Stub:
                idx = i

                def __init__(self, selector, searchrequest, protocol, config, statresult, vfs=None):
                    self.statresult = statresult

                def isrequestforme(self):
                    asked.append(self.idx)
                    return answers[self.idx]

                def gethandler(self):
                    return self
            return Stub
        classes.append(mk())
    cfg = dl.config()
    vfs = mv.MemVFS(cfg, _tree())
    hx.reset_lazies()
    hx.silence_logging()
    try:
        h = HM.getHandler(sel, None, None, cfg, classes, vfs)
        raised = None
    except GopherExceptions.FileNotFound as e:
        h, raised = None, e
    except Exception as e:
        raise hx.Violation("C01:gethandler-raises:%s" % type(e).__name__, "selector=%r" % (sel,))
    hx.reach()
    first = -1
    for i in range(len(answers)):
        if answers[i]:
            first = i
            break
    if first < 0:
        hx.require(h is None and raised is not None, "C01:handler-without-acceptance", lambda: "sel=%r" % (sel,))
    else:
        hx.require(h is not None and type(h).idx == first and asked == list(range(first + 1)), "C01:not-first-accepting-handler", lambda: "answers=%r asked=%r" % (answers, asked))
        exists = True
        try:
            vfs.stat(sel)
        except (OSError, ValueError):
            exists = False
        hx.require((h.statresult is not None) == exists, "C01:statresult-mismatch", lambda: "sel=%r" % (sel,))
    return True


# ------------------------------------------------------------------ C01.7: one decoding layer, before normalisation and the filter


def _norm_ref(s):
    """documented selector normalisation: leading slash, no trailing slash, root is '/'"""
    if len(s) and s[-1] == "/":
        s = s[:-1]
    if len(s) == 0 or s[0] != "/":
        s = "/" + s
    return s


def body_decode(kind: int, path: str) -> bool:
    """http(0)/wap(1)/gemini(2)/spartan(3): the selector handed to handler selection is
    normalise(unquote(path)) with exactly one unquote call, errors=surrogateescape."""
    import urllib.parse

    from pygopherd import GopherExceptions
    from pygopherd.handlers import HandlerMultiplexer as HM
    from pygopherd.protocols import gemini, http, spartan, wap

    calls = []
    seen = []

    def unquote(s, encoding="utf-8", errors="replace"):
        calls.append((s, errors))
        return "U(" + s + ")"

    def getHandler(selector, searchrequest, protocol, config, handlerlist=None, vfs=None):
        seen.append((selector, searchrequest))
        raise GopherExceptions.FileNotFound(selector, "stub", protocol)

    cfg = hx.DictConfig(True)
    if kind == 1:
        # a WAP prefix that selectors themselves may start with: it is removed from the front exactly once
        cfg.set("protocols.wap.WAPProtocol", "waptop", "/a")
    hx.silence_logging()
    w = hx.ListWriter()
    srv = hx.make_server(cfg)
    saved = (urllib.parse.unquote, HM.getHandler)
    urllib.parse.unquote = unquote
    HM.getHandler = getHandler
    try:
        if kind == 0:
            p = http.HTTPProtocol("GET " + path + " HTTP/1.0\r\n", srv, hx.make_rh(False), hx.LineReader([]), w, cfg)
        elif kind == 1:
            p = wap.WAPProtocol("GET /a" + path + " HTTP/1.0\r\n", srv, hx.make_rh(False), hx.LineReader([]), w, cfg)
        elif kind == 2:
            p = gemini.GeminiProtocol("gemini://h" + path + "\r\n", srv, hx.make_rh(True), None, w, cfg)
            # urlparse hashes/realizes its argument: contract stub returning the path component
            gemini.urllib = hx.ns(parse=hx.ns(urlparse=lambda u: hx.ns(path=path, query=""), unquote=unquote, quote=urllib.parse.quote, unquote_plus=urllib.parse.unquote_plus, urlsplit=urllib.parse.urlsplit))
        else:
            p = spartan.SpartanProtocol("h " + path + " 0\r\n", srv, hx.make_rh(False), hx.LineReader([]), w, cfg)
        try:
            if p.canhandlerequest():
                p.handle()
            else:
                return True
        finally:
            if kind == 2:
                gemini.urllib = urllib
    finally:
        urllib.parse.unquote, HM.getHandler = saved
    if not seen:
        return True  # answered without consulting handlers (icons, gemini query prompt)
    hx.reach()
    sel = seen[0][0]
    pathcalls = [c for c in calls if c[0] == path or (kind in (0, 1) and c[0] == path.split("?")[0])]
    raw = path.split("?")[0] if kind in (0, 1) else path
    hx.require(len([c for c in calls if c[0] == raw]) == 1, "C01:decoding-layers", lambda: "path=%r unquote calls=%r" % (path, calls))
    hx.require(all(c[1] == "surrogateescape" for c in calls), "C01:decoder-error-handler", lambda: "calls=%r" % (calls,))
    hx.require(sel == _norm_ref("U(" + raw + ")"), "C01:selector-not-normalised-decoding-of-path", lambda: "path=%r selector=%r" % (path, sel))
    return True


def fn_no_decoder_in_handlers():
    """AST scan: no handler module percent-decodes (a second decoding layer after the filter)."""
    import ast
    import os

    bad, files = [], []
    d = os.path.join(hx.REPO, "pygopherd", "handlers")
    for f in sorted(os.listdir(d)):
        if not f.endswith(".py"):
            continue
        files.append(f)
        tree = ast.parse(open(os.path.join(d, f)).read())
        for node in ast.walk(tree):
            name = node.attr if isinstance(node, ast.Attribute) else node.id if isinstance(node, ast.Name) else None
            if name in ("unquote", "unquote_plus", "unquote_to_bytes", "url2pathname"):
                bad.append("%s:%d %s" % (f, node.lineno, name))
    if bad:
        return {"status": "violation", "detail": "handler modules decode percent-escapes: %r" % bad,
                "violations": [{"body": "harness.C01:replay_decoder_scan", "kwargs": {}, "sig": "C01:decoder-in-handler"}]}
    return {"status": "discharged", "queries": len(files), "detail": "no unquote* in %d handler modules" % len(files), "twin": "n/a",
            "samples": files[:5], "notes": "syntactic scan, complements C01.7"}


def replay_decoder_scan() -> bool:
    r = fn_no_decoder_in_handlers()
    hx.require(r["status"] == "discharged", "C01:decoder-in-handler", r["detail"])
    return True


# ------------------------------------------------------------------ C01.3: selector -> filesystem path


def body_fspath(root: str, sel: str) -> bool:
    from pygopherd.handlers import base
    from spec import shapes

    cfg = hx.DictConfig()
    cfg.set("pygopherd", "root", root)
    base.rootpath = None
    v = base.VFS_Real(cfg)
    p = v.getfspath(sel)
    base.rootpath = None
    hx.reach()
    want = root + sel
    if want.endswith("/"):
        want = want[:-1]
    hx.require(p == want, "C01:fspath-not-root-plus-selector", lambda: "root=%r sel=%r -> %r" % (root, sel, p))
    return True


# ------------------------------------------------------------------ C01.8: selectors that come from content (gophermap lines)


def body_gophermap(selfield: str, absolute: bool, urlp: bool = False) -> bool:
    from pygopherd.handlers import gophermap

    cfg = _full_config()
    nodes = _tree()
    # urlp: the selector names a URL (`URL:mailto:x`, `URL:http://...`): it is not a path at all
    line = "0name\t" + ("/" if absolute else "") + ("URL:" if urlp else "") + selfield + "\r\n"
    nodes["/d/gophermap"] = mv.File([line])
    vfs = mv.MemVFS(cfg, nodes)
    dl.install_dir_env(vfs, 5000, dl.PickleStub())
    try:
        proto = hx.ns(server=hx.make_server(cfg), requesthandler=hx.make_rh(False), config=cfg)
        h = gophermap.BuckGophermapHandler("/d", "", proto, cfg, vfs.stat("/d"), vfs)
        n0 = len(vfs.log)
        try:
            h.prepare()
        except (IndexError, ValueError):
            return True  # ill-formed line (empty fields / non-numeric port): outside this property
    finally:
        dl.restore_dir_env()
    hx.reach()
    for (op, p) in vfs.log[n0:]:
        hx.require(confined(p), "C01:gophermap-selector-reaches-outside:%s" % op.split(":")[0], lambda: "line=%r %s(%r)" % (line, op, p))
    return True


def obligations(tier, seed):
    obs = [
        Ob(id="C01.1-filters", body="harness.C01:fn_filters", kind="fn", engine="RE", twin=False, timeout=600,
           kwargs={"nwit": 10 if tier == "quick" else 60},
           desc="language accepted by BaseHandler.isrequestsecure == strings without './', '..', '//', '.\\', '\\\\', NUL; HTMLURLHandler filter == documented URL shape; "
                "no handler overrides the security entry points; accepted language has no '..' component / NUL",
           bounds="selectors of any length"),
        Ob(id="C01.7b-no-decoder-in-handlers", body="harness.C01:fn_no_decoder_in_handlers", kind="fn", engine="scan", twin=False, timeout=60,
           desc="no handler module calls a percent-decoder", bounds="all files under pygopherd/handlers"),
        Ob(id="C01.3-fspath", body="harness.C01:body_fspath", sig="root: str, sel: str", pre=["1 <= len(root) <= 3", "len(sel) <= 5", "len(sel) >= 1"], timeout=90,
           desc="VFS_Real.getfspath(sel) is literally root + sel minus one trailing slash", bounds="|root| <= 3, 1 <= |sel| <= 5",
           functions=["pygopherd.handlers.base.VFS_Real.getfspath"]),
        Ob(id="C01.3b-fspath-lookalikes", body="harness.C01:body_fspath", sig="root: str, sel: str",
           pre=["root == '/r'", "1 <= len(sel) <= 3", "all(c in '/.aA' + chr(0x2025) + chr(0x2024) + chr(0xff0e) + chr(0xff0f) + chr(0x2215) + chr(0xe9) + chr(0x301) + chr(0xdcff) + chr(92) for c in sel)"], timeout=300,
           desc="VFS_Real.getfspath(sel) is literally root + sel for selectors over separator/dot look-alikes (U+2025 two-dot leader, U+2024, fullwidth stop and solidus, division slash), case variants, combining and surrogate-escaped characters: no normalisation, folding or re-encoding between the security filter and the OS path",
           bounds="1 <= |sel| <= 3 over 13 characters (separators, dots, their Unicode compatibility look-alikes, case, combining mark, lone surrogate)",
           functions=["pygopherd.handlers.base.VFS_Real.getfspath"]),
        Ob(id="C01.5-gethandler", body="harness.C01:body_gethandler", sig="sel: str, answers: list[bool]", pre=["len(sel) <= 3", "len(answers) <= 4"], timeout=120,
           desc="real getHandler: first accepting handler, FileNotFound otherwise, any stat failure (incl. ValueError for NUL) is absorbed",
           bounds="|sel| <= 3 (all characters), <= 4 stub handlers with symbolic verdicts", functions=["pygopherd.handlers.HandlerMultiplexer.getHandler"]),
    ]
    tl = 1 if tier == "quick" else 2
    for hi, hp in enumerate(HANDLERS):
        for pi, pre in enumerate(PREFIXES):
            if tier == "quick" and pi not in QUICK_PREFIXES.get(hp.rsplit(".", 1)[1], QUICK_DEFAULT):
                continue
            obs.append(Ob(
                id="C01.4-confine[%s,%r]" % (hp.rsplit(".", 1)[1], pre),
                body="harness.C01:body_confine", sig="hidx: int, prefix: int, tail: str, prop: int",
                pre=["hidx == %d" % hi, "prefix == %d" % pi, "len(tail) <= %d" % tl, "prop == 1"],
                desc="%s on selector %r + symbolic tail over the access-logging VFS (site + objects outside it): accepts only filtered selectors; every non-stat access "
                     "and every path given to zipfile/mailbox/import/subprocess is inside the root" % (hp.rsplit(".", 1)[1], pre),
                bounds="selector = %r + tail, |tail| <= %d (all characters)" % (pre, tl), timeout=200 if tier == "quick" else 600,
                functions=[hp + ".*", "pygopherd.handlers.base.BaseHandler.isrequestforme", "pygopherd.handlers.virtual.Virtual.__init__"],
            ))
    obs.append(Ob(id="C01.9-nonreal-vfs", body="harness.C01:body_nonreal", sig="hidx: int, sidx: int, real: bool",
                  pre=["0 <= hidx < %d" % len(REALONLY), "0 <= sidx < %d" % len(NONREAL_SELS)], timeout=200,
                  desc="mailbox/Maildir/PYG/exec/ZIP handlers on a VFS that is not the real file system (a ZIP): never accept, never touch mailbox/import/subprocess/zipfile",
                  bounds="%d handler classes x %d selectors x real/non-real VFS (symbolic indices)" % (len(REALONLY), len(NONREAL_SELS)), functions=REALONLY))
    for kind, name in enumerate(["http", "wap", "gemini", "spartan"]):
        obs.append(Ob(id="C01.7-decode[%s]" % name, body="harness.C01:body_decode", sig="kind: int, path: str",
                      pre=["kind == %d" % kind, "1 <= len(path) <= %d" % (3 if tier == "quick" else 4), "all(c in '/.%2eE' + chr(92) + 'a?' for c in path)"]
                          + (["path[0] == '/'"] if name != "spartan" else []),
                      timeout=240 if tier == "quick" else 900,
                      desc="real %s handle(): selector given to handler selection == normalise(unquote(path)), one unquote call with errors=surrogateescape" % name,
                      bounds="request path symbolic over the alphabet {/ . %% 2 e E \\ a ?}, |path| <= %d; unquote = tagging stub; handler selection = recording stub" % (3 if tier == "quick" else 4),
                      functions=["pygopherd.protocols.%s.handle" % name, "BaseGopherProtocol.slashnormalize"]))
    for absolute in (False, True):
        obs.append(Ob(id="C01.8-gophermap[%s]" % ("absolute" if absolute else "relative"), body="harness.C01:body_gophermap", sig="selfield: str, absolute: bool",
                      pre=["absolute == %s" % absolute, "1 <= len(selfield) <= %d" % (4 if tier == "quick" else 5), "all(c in './o' + chr(92) + chr(0) for c in selfield)"], timeout=240 if tier == "quick" else 900,
                      desc="real BuckGophermapHandler.prepare on a gophermap link whose selector field is symbolic: every VFS access is inside the root",
                      bounds="selector field |s| <= %d over {. / o \\ NUL}, %s" % (4 if tier == "quick" else 5, "absolute" if absolute else "relative"),
                      functions=["pygopherd.handlers.gophermap.BuckGophermapHandler.prepare", "GopherEntry.populatefromvfs"]))
    obs.append(Ob(id="C01.8-gophermap[url-prefix]", body="harness.C01:body_gophermap", sig="selfield: str, absolute: bool, urlp: bool",
                  pre=["absolute == False", "urlp == True", "1 <= len(selfield) <= 3", "all(c in './o:' for c in selfield)"], timeout=240,
                  desc="real BuckGophermapHandler.prepare on a gophermap link whose selector field is `URL:` + symbolic text (mailto:, news:, http://...): no VFS access outside the root (such a selector is not a path under the root)",
                  bounds="selector field URL: + |s| <= 3 over {. / o :}", functions=["pygopherd.handlers.gophermap.BuckGophermapHandler.prepare"]))
    return obs


QUICK_DEFAULT = (1, 2)
QUICK_PREFIXES = {
    "HTMLURLHandler": (10, 11), "URLTypeRewriter": (4, 2), "BuckGophermapHandler": (2, 9, 3), "MaildirFolderHandler": (2, 14),
    "MaildirMessageHandler": (12, 14), "MBoxFolderHandler": (2, 3), "MBoxMessageHandler": (12, 5), "ZIPHandler": (8, 7, 2),
    "UMNDirHandler": (2, 9), "DirHandler": (2, 9), "HTMLFileTitleHandler": (2, 1), "PYGHandler": (2, 1), "ExecHandler": (2, 5),
    "TALFileHandler": (2, 1), "CompressedFileHandler": (2, 1), "FileHandler": (2, 1, 3),
}
