"""C20 -- a failing client connection is contained in its own handler."""
from __future__ import annotations

import errno
import gc
import re
import socket

import vk.hx as hx
from vk.driver import Ob

META = {
    "level": "other",
    "technique": "bounded symbolic execution (CrossHair/z3) of the real request path with a failing socket writer whose failing write index, error class and persistence are symbolic",
    "claim": "For each response kind x protocol scenario the real GopherRequestHandler.handle -> protocol -> handlers run on real fixture files "
    "with a writer that fails from a symbolic write index with a symbolic error class; CrossHair explores every (index, class, persistence) "
    "within the bound and the assertions (nothing propagates, every EXCEPTION log line carries the client address and only the injected "
    "error class, every VFS file is closed) hold on all paths. Exhaustive within the bound; write indexes beyond the bound are not covered.",
    "trusted": "CrossHair/z3; the failing writer stands for the socket (EPIPE, ECONNRESET, single-argument timeout); fixture content = the repo's testdata.",
    "explanation": "Fault injection with symbolic fault position/class through the real request path on real files.",
    "assumptions": [
        "a connection failure shows up as an exception from wfile.write (EPIPE/ECONNRESET with errno+strerror, socket.timeout with one argument)",
        "fixture content is the repository's testdata tree (scratch copy); other content is outside the claim",
        "VFSZip's shelve index is served from an in-memory snapshot of the index the real code wrote during a concrete warm-up run (dbm files cannot be accessed under the tracer)",
        "files held by objects that are only released by the cyclic garbage collector count as closed after gc.collect()",
    ],
}

ADDR = ("10.9.8.7", 4321)

# (name, request bytes, tls, full handler list)
SCENARIOS = [
    ("gopher-doc", b"/testfile.txt\r\n", False, False),
    ("gopher-menu", b"/pygopherd\r\n", False, False),
    ("gopher-notfound", b"/nonexistent\r\n", False, False),
    ("gopherp-doc", b"/testfile.txt\t+\r\n", False, False),
    ("gopherp-info", b"/testfile.txt\t!\r\n", False, False),
    ("gopherp-dir", b"/pygopherd\t$\r\n", False, False),
    ("gopherp-notfound", b"/nonexistent\t+\r\n", False, False),
    ("http-doc", b"GET /testfile.txt HTTP/1.0\r\n\r\n", False, False),
    ("http-menu", b"GET /pygopherd HTTP/1.0\r\n\r\n", False, False),
    ("http-notfound", b"GET /nonexistent HTTP/1.0\r\n\r\n", False, False),
    ("wap-doc", b"GET /wap/testfile.txt HTTP/1.0\r\n\r\n", False, False),
    ("wap-menu", b"GET /wap/pygopherd HTTP/1.0\r\n\r\n", False, False),
    ("gemini-doc", b"gemini://srv.example/testfile.txt\r\n", True, False),
    ("gemini-menu", b"gemini://srv.example/pygopherd\r\n", True, False),
    ("gemini-notfound", b"gemini://srv.example/nonexistent\r\n", True, False),
    ("spartan-doc", b"srv.example /testfile.txt 0\r\n", False, False),
    ("spartan-menu", b"srv.example /pygopherd 0\r\n", False, False),
    ("spartan-notfound", b"srv.example /nonexistent 0\r\n", False, False),
    ("gopher-zipmember", b"/testdata.zip/pygopherd/ziponly\r\n", False, True),
    ("gopherp-zipdir", b"/testdata.zip/pygopherd\t+\r\n", False, True),
    ("http-zipmember", b"GET /testdata.zip/pygopherd/ziponly HTTP/1.0\r\n\r\n", False, True),
    ("gopher-mboxmsg", b"/python-dev.mbox|/MBOX-MESSAGE/1\r\n", False, False),
    ("gopherp-mboxmsg", b"/python-dev.mbox|/MBOX-MESSAGE/1\t+\r\n", False, False),
    ("gemini-mboxfolder", b"gemini://srv.example/python-dev.mbox\r\n", True, False),
    ("secure-gopher-doc", b"/testfile.txt\r\n", True, False),
]



def _mkerr(kind: int):
    if kind == 0:
        return BrokenPipeError(errno.EPIPE, "Broken pipe")
    if kind == 1:
        return ConnectionResetError(errno.ECONNRESET, "Connection reset by peer")
    return socket.timeout("timed out")


SLOW = ("gemini-mboxfolder",)
ERRS = [type(_mkerr(i)).__name__ for i in range(3)]


class FailingWriter:
    def __init__(self, k: int, kind: int, persist: bool):
        self.k, self.kind, self.persist = k, kind, persist
        self.n = 0
        self.fired = 0
        self.chunks = []

    def write(self, b):
        i = self.n
        self.n += 1
        if i == self.k or (self.persist and i > self.k and self.k >= 0):
            self.fired += 1
            raise _mkerr(self.kind)
        self.chunks.append(b)
        return len(b)

    def flush(self):
        pass

    def fileno(self):
        raise OSError("no fileno")


_OPENED = []


def _track_opens():
    from pygopherd.handlers import base

    if getattr(base.VFS_Real.open, "_vk", False):
        return
    orig = base.VFS_Real.open

    def open_(self, selector, mode, errors=None):
        f = orig(self, selector, mode, errors=errors)
        _OPENED.append((selector, f))
        return f

    open_._vk = True
    base.VFS_Real.open = open_


# everything concrete happens here, outside the tracer
hx.scratch_testdata()
_CFG = {False: None, True: None}


def _cfg(full):
    c = hx.real_config(full_handlers=full)
    # lifetime 0: the listing is regenerated on every path (deterministic across CrossHair iterations)
    c.set("handlers.dir.DirHandler", "cachetime", 0)
    return c


def _warmup():
    """Concrete run of every scenario outside the tracer: stdlib lazies (mimetypes tables, re
    cache) get initialised and VFSZip finds its shelve index on disk (writing a dbm file under
    the tracer is neither deterministic nor supported)."""
    from pygopherd import logger

    logger.log = lambda m: None
    for name, req, tls, full in SCENARIOS:
        if True:
            hx.reset_lazies()
            h = hx.make_request_handler(hx.BytesReader(req), hx.ListWriter(), _cfg(full), tls=tls, addr=ADDR)
            h.handle()
    gc.collect()


_warmup()


class _DictShelf(dict):
    def close(self):
        pass

    def sync(self):
        pass

    def __enter__(self):
        return self

    def __exit__(self, *a):
        pass


_SHELVES = {}


def _snapshot_shelves():
    """dbm files cannot be read or written under the tracer: load every VFSZip index the warm-up
    produced into a plain dict and serve it through a shelve look-alike."""
    import os
    import shelve

    root = hx.scratch_testdata()
    for f in os.listdir(root):
        if f.startswith(".cache.pygopherd.zip3."):
            base = os.path.join(root, f)
            for suffix in (".dat", ".db", ""):
                if f.endswith(suffix) and suffix:
                    base = os.path.join(root, f[: -len(suffix)])
                    break
            if base in _SHELVES:
                continue
            try:
                with shelve.open(base, "r") as db:
                    _SHELVES[base] = dict(db)
            except Exception:
                pass


_snapshot_shelves()


def _shelve_open(path, flag="c", *a, **kw):
    if flag == "r":
        if path in _SHELVES:
            return _DictShelf(_SHELVES[path])
        raise OSError("no such shelf: %s" % path)
    return _DictShelf()


LOGLINE = re.compile(r"^(\S+) \[([^/\]]*)/([^\]]*)\] EXCEPTION (\w+): ")


def body_fault(scn: int, k: int, kind: int, persist: bool) -> bool:
    import traceback

    from pygopherd import logger

    from pygopherd.handlers import dir as dirmod

    name, req, tls, full = SCENARIOS[scn]
    # CrossHair makes time.time() symbolic; the cache freshness test is C10's subject, here the clock is fixed
    dirmod.time = hx.ns(time=lambda: 4102444800.0)
    from pygopherd.handlers import ZIP as zipmod

    zipmod.shelve = hx.ns(open=_shelve_open)
    hx.reset_lazies()
    _track_opens()
    del _OPENED[:]
    logs = []
    logger.log = logs.append
    traceback.print_exc = lambda *a, **kw: None
    cfg = _cfg(full)
    w = FailingWriter(k, kind, persist)
    h = hx.make_request_handler(hx.BytesReader(req), w, cfg, tls=tls, addr=ADDR)
    try:
        h.handle()
    except Exception as e:
        raise hx.Violation("C20:escaped-handle:%s" % type(e).__name__, "%s k=%d kind=%s: %r" % (name, k, ERRS[kind], e))
    finally:
        import importlib
        importlib.reload(traceback) if False else None
    if w.fired:
        hx.reach()
    injected = ERRS[kind]
    seen_injected = False
    for line in logs:
        if " EXCEPTION " not in line:
            continue
        m = LOGLINE.match(line)
        hx.require(m is not None, "C20:malformed-exception-log", lambda: line[:200])
        cls = m.group(4)
        if cls == "FileNotFound":
            continue
        hx.require(w.fired > 0, "C20:exception-without-fault", lambda: "%s: %s" % (name, line[:200]))
        hx.require(cls == injected, "C20:logged-as-other-class:%s" % cls, lambda: "%s k=%d injected=%s line=%s" % (name, k, injected, line[:200]))
        hx.require(m.group(1) == ADDR[0], "C20:log-without-client-address", lambda: line[:200])
        seen_injected = True
    if w.fired:
        hx.require(seen_injected, "C20:failure-not-logged", lambda: "%s k=%d kind=%s logs=%r" % (name, k, injected, logs[-3:]))
    # every file handed out by the VFS is closed
    h = None
    gc.collect()
    for sel, f in _OPENED:
        closed = getattr(f, "closed", None)
        hx.require(closed is not False, "C20:file-left-open", lambda: "%s: %s still open after handle (k=%d kind=%s)" % (name, sel, k, injected))
    return True


class _Boom(Exception):
    pass


def body_worker(forking: bool, kind: int, tlsctx: bool, wrapfail: bool) -> bool:
    """process_request_thread / the forked-child branch of process_request: finish_request (or
    the TLS wrap) raising a connection error is handed to handle_error, shutdown_request always
    runs, nothing propagates."""
    from pygopherd import server as srvmod

    events = []
    err = _mkerr(kind)

    class Ctx:
        def wrap_socket(self, sock, server_side=False):
            events.append("wrap")
            if wrapfail:
                raise err
            return sock

    class Sock:
        def recv(self, n, flags=0):
            return b"\x16"

    base = srvmod.ForkingTCPServer if forking else srvmod.ThreadingTCPServer

    class S(base):
        def __init__(self):
            self.context = Ctx() if tlsctx else None
            self.active_children = None

        def finish_request(self, request, client_address):
            events.append("finish")
            raise err

        def handle_error(self, request, client_address):
            events.append("handle_error")

        def shutdown_request(self, request):
            events.append("shutdown")

        def close_request(self, request):
            events.append("close")

    class OsStub:
        def fork(self):
            return 0

        def _exit(self, status):
            events.append("exit%d" % status)
            raise _Boom()

    s = S()
    saved = srvmod.os
    srvmod.os = OsStub()
    try:
        try:
            if forking:
                s.process_request(Sock(), ADDR)
            else:
                s.process_request_thread(Sock(), ADDR)
        except _Boom:
            pass
        except Exception as e:
            raise hx.Violation("C20:escaped-worker:%s" % type(e).__name__, "events=%r" % (events,))
    finally:
        srvmod.os = saved
    hx.reach()
    hx.require("handle_error" in events, "C20:worker-error-not-reported", lambda: "events=%r" % (events,))
    hx.require("shutdown" in events and events.index("shutdown") > events.index("handle_error"), "C20:no-shutdown-after-error", lambda: "events=%r" % (events,))
    if forking:
        hx.require(events[-1] == "exit1", "C20:child-exit-status", lambda: "events=%r" % (events,))
    if tlsctx and wrapfail:
        hx.require("finish" not in events, "C20:served-after-failed-handshake", lambda: "events=%r" % (events,))
    return True


def obligations(tier, seed):
    obs = []
    maxk = 12 if tier == "quick" else 45
    for i, (name, req, tls, full) in enumerate(SCENARIOS):
        if name in SLOW and tier == "quick":
            continue
        obs.append(Ob(
            id="C20.1-fault[%s]" % name,
            body="harness.C20:body_fault",
            sig="scn: int, k: int, kind: int, persist: bool",
            pre=["scn == %d" % i, "-1 <= k <= %d" % maxk, "0 <= kind <= 2"],
            desc="real handle() for request %r (tls=%s): writer fails from write index k with error class kind; nothing propagates, "
                 "EXCEPTION log lines carry the client address and only the injected class, VFS files closed" % (req, tls),
            bounds="write index k in -1..%d (symbolic), error class in {EPIPE, ECONNRESET, timeout(1 arg)} (symbolic), persistent/one-shot failure (symbolic)" % maxk,
            timeout=150 if tier == "quick" else 600,
            functions=["pygopherd.server.GopherRequestHandler.handle", "protocols.*.handle/filenotfound/writedir", "handlers.*.write", "VFS_Real.copyto"],
        ))
    obs.append(Ob(
        id="C20.2-worker",
        body="harness.C20:body_worker",
        sig="forking: bool, kind: int, tlsctx: bool, wrapfail: bool",
        pre=["0 <= kind <= 2"],
        desc="ThreadingTCPServer.process_request_thread and the child branch of ForkingTCPServer.process_request with finish_request or the TLS wrap raising",
        bounds="2 server kinds x 3 error classes x TLS context present/absent x handshake failure (all symbolic)",
        timeout=60,
        functions=["pygopherd.server.ThreadingTCPServer.process_request_thread", "pygopherd.server.ForkingTCPServer.process_request", "BaseServer.wrap_socket"],
    ))
    return obs
