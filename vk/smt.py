"""Engine SMT: small kernels of pygopherd translated from their AST into SMT-LIB and decided by
z3 (wheel CLI) and cvc5 (binary).  A disagreement, an `(error` line, `unknown` or a timeout
makes the obligation inconclusive.
"""
from __future__ import annotations

import ast
import inspect
import os
import subprocess
import tempfile
import textwrap
import time

HERE = os.path.dirname(os.path.dirname(os.path.abspath(__file__)))
Z3 = os.path.join(HERE, ".venv", "bin", "z3")
CVC5 = "/usr/bin/cvc5"


def run_solver(cmd, text, timeout):
    with tempfile.NamedTemporaryFile("w", suffix=".smt2", delete=False) as f:
        f.write(text)
        path = f.name
    t0 = time.time()
    try:
        p = subprocess.run(cmd + [path], capture_output=True, text=True, timeout=timeout)
        out = (p.stdout + p.stderr).strip()
    except subprocess.TimeoutExpired:
        out = "timeout"
    finally:
        os.unlink(path)
    dt = time.time() - t0
    if "(error" in out or "error" in out.lower() and "unsat" not in out and "sat" not in out:
        return "error: " + out[:200], dt, out
    first = out.splitlines()[0].strip() if out else "no output"
    return first, dt, out


def both(text, timeout=300, need_model=False):
    """Returns (verdict, details, seconds).  verdict in {unsat, sat, inconclusive}."""
    from concurrent.futures import ThreadPoolExecutor

    with ThreadPoolExecutor(2) as ex:
        fz = ex.submit(run_solver, [Z3, "-smt2", "-T:%d" % timeout], text, timeout + 10)
        fc = ex.submit(run_solver, [CVC5, "--fp-exp", "--tlimit=%d" % (timeout * 1000)] + (["--produce-models"] if need_model else []), text, timeout + 10)
        z, zt, zout = fz.result()
        c, ct, cout = fc.result()
    det = {"z3": z, "z3_s": round(zt, 2), "cvc5": c, "cvc5_s": round(ct, 2)}
    if z in ("sat", "unsat") and c in ("sat", "unsat"):
        if z != c:
            return "inconclusive", dict(det, note="solvers disagree"), zt + ct, zout
        return z, det, zt + ct, zout
    # one solver answered, the other timed out / unknown: report the answer but mark single-solver
    if z in ("sat", "unsat"):
        return z, dict(det, note="cvc5 gave no verdict; z3 only"), zt + ct, zout
    if c in ("sat", "unsat"):
        return c, dict(det, note="z3 gave no verdict; cvc5 only"), zt + ct, cout
    return "inconclusive", det, zt + ct, zout


# ------------------------------------------------------------------ C10: float freshness lemma


def _find_freshness_compare():
    """Locate `<clock call> - <mtime expr> <op> <lifetime expr>` in DirHandler.loadcache."""
    from pygopherd.handlers import dir as dirmod

    src = textwrap.dedent(inspect.getsource(dirmod.DirHandler.loadcache))
    tree = ast.parse(src)
    found = []
    for node in ast.walk(tree):
        if isinstance(node, ast.Compare) and len(node.ops) == 1 and isinstance(node.left, ast.BinOp) and isinstance(node.left.op, ast.Sub):
            l, r = node.left.left, node.left.right
            if "time" in ast.dump(l) and "ST_MTIME" in ast.dump(r) or "mtime" in ast.dump(r).lower():
                found.append(node)
    return src, found


def fn_freshness_fp_lemma(timeout=300):
    src, found = _find_freshness_compare()
    fns = ["pygopherd.handlers.dir.DirHandler.loadcache (freshness comparison, from the AST)"]
    if len(found) != 1:
        return {"status": "inconclusive", "detail": "Unsupported: expected exactly one `time - mtime <op> lifetime` comparison in loadcache, found %d" % len(found), "functions": fns}
    cmp_ = found[0]
    op = type(cmp_.ops[0]).__name__
    rhs = ast.dump(cmp_.comparators[0])
    if "cachetime" not in rhs:
        return {"status": "inconclusive", "detail": "Unsupported: right operand is not the lifetime: " + ast.unparse(cmp_), "functions": fns}
    fpop = {"Lt": "fp.lt", "LtE": "fp.leq"}.get(op)
    if fpop is None:
        return {"status": "inconclusive", "detail": "Unsupported comparison operator %s in %s" % (op, ast.unparse(cmp_)), "functions": fns}
    text = """
(set-logic QF_FP)
(define-sort F64 () (_ FloatingPoint 11 53))
(define-sort F128 () (_ FloatingPoint 15 113))
(declare-const t F64) (declare-const m F64) (declare-const T F64)
(define-fun two33 () F64 ((_ to_fp 11 53) RNE 8589934592.0))
(define-fun one () F64 ((_ to_fp 11 53) RNE 1.0))
(define-fun zero () F64 ((_ to_fp 11 53) RNE 0.0))
(assert (and (fp.leq one t) (fp.leq t two33)))
(assert (and (fp.leq zero m) (fp.leq m two33) (fp.eq m (fp.roundToIntegral RNE m))))
(assert (and (fp.leq zero T) (fp.leq T two33) (fp.eq T (fp.roundToIntegral RNE T))))
(assert (fp.leq m t))
; the test as written in the source: fresh iff (t - m) %s T in double arithmetic
(assert (%s (fp.sub RNE t m) T))
; ... although the exact difference (exact in the 15/113 format: 33+52 < 113 bits) is >= T
(assert (fp.geq (fp.sub RNE ((_ to_fp 15 113) RNE t) ((_ to_fp 15 113) RNE m)) ((_ to_fp 15 113) RNE T)))
(check-sat)
""" % ({"Lt": "<", "LtE": "<="}[op], fpop)
    verdict, det, secs, out = both(text, timeout=timeout)
    res = {"queries": 2, "solver_s": round(secs, 1), "functions": fns, "samples": [{"comparison": ast.unparse(cmp_), "solvers": det}], "twin": "n/a"}
    if verdict == "unsat":
        # vacuity: the premises without the negated goal must be satisfiable
        sat_text = text.replace("(assert (fp.geq (fp.sub RNE ((_ to_fp 15 113) RNE t) ((_ to_fp 15 113) RNE m)) ((_ to_fp 15 113) RNE T)))", "")
        v2, det2, s2, _ = both(sat_text, timeout=60)
        res["queries"] += 2
        res["solver_s"] = round(secs + s2, 1)
        res["twin"] = "ok" if v2 == "sat" else "vacuous"
        res["twin_witness"] = "premises satisfiable: %s" % (det2,)
        res["status"] = "discharged" if v2 == "sat" else "inconclusive"
        res["detail"] = "unsat in both solvers: with the source's `%s` a stale entry can never look fresh through rounding %s" % (ast.unparse(cmp_), det)
        return res
    if verdict == "sat":
        # concrete witness: t - m == T exactly is the simplest one when the operator admits equality
        res["status"] = "violation"
        res["detail"] = "float freshness test `%s` admits an entry whose exact age is >= lifetime (%s)" % (ast.unparse(cmp_), det)
        res["violations"] = [{"body": "harness.C10:body_freshness", "kwargs": {"t": 1180, "m": 1000, "T": 180, "present": True, "writable": True}, "sig": "C10:freshness-test-wrong"}]
        return res
    res["status"] = "inconclusive"
    res["detail"] = "no verdict: %s" % (det,)
    return res


# ------------------------------------------------------------------ C04: copy loop, inductive invariant in LIA


class Unsupported(Exception):
    pass


def _copyto_shape():
    """Recognise the block-copy loop of VFS_Real.copyto from its AST.  Returns (K, notes)."""
    from pygopherd.handlers import base

    src = textwrap.dedent(inspect.getsource(base.VFS_Real.copyto))
    fn = ast.parse(src).body[0]
    # with self.open(name, "rb") as rfile:
    withs = [n for n in fn.body if isinstance(n, ast.With)]
    if len(withs) != 1 or len(fn.body) != 1:
        raise Unsupported("copyto body is not a single `with` statement")
    w = withs[0]
    item = w.items[0]
    if not (isinstance(item.context_expr, ast.Call) and ast.unparse(item.context_expr.func) == "self.open" and isinstance(item.optional_vars, ast.Name)):
        raise Unsupported("with item is not `self.open(...) as <name>`")
    rf = item.optional_vars.id
    args = item.context_expr.args
    if not (len(args) >= 2 and isinstance(args[1], ast.Constant) and args[1].value == "rb"):
        raise Unsupported("file is not opened in 'rb' mode")
    if not (len(w.body) == 1 and isinstance(w.body[0], ast.While)):
        raise Unsupported("with body is not a single while loop")
    loop = w.body[0]
    if not (isinstance(loop.test, ast.Constant) and loop.test.value in (1, True)) or loop.orelse:
        raise Unsupported("loop is not `while 1/True`")
    b = loop.body
    if len(b) != 3:
        raise Unsupported("loop body does not have the 3-statement read/test/write shape (%d statements)" % len(b))
    # data = rfile.read(K)
    s0 = b[0]
    if not (isinstance(s0, ast.Assign) and len(s0.targets) == 1 and isinstance(s0.targets[0], ast.Name)
            and isinstance(s0.value, ast.Call) and ast.unparse(s0.value.func) == rf + ".read"
            and len(s0.value.args) == 1 and isinstance(s0.value.args[0], ast.Constant) and isinstance(s0.value.args[0].value, int)):
        raise Unsupported("first statement is not `data = rfile.read(<int>)`: " + ast.unparse(s0))
    data = s0.targets[0].id
    K = s0.value.args[0].value
    if K <= 0:
        raise Unsupported("block size %d" % K)
    # if not len(data): break      (or: if not data / if len(data) == 0)
    s1 = b[1]
    ok_tests = {"not len(%s)" % data, "not %s" % data, "len(%s) == 0" % data, "%s == b''" % data}
    if not (isinstance(s1, ast.If) and ast.unparse(s1.test) in ok_tests and len(s1.body) == 1 and isinstance(s1.body[0], ast.Break) and not s1.orelse):
        raise Unsupported("second statement is not `if not len(data): break`: " + ast.unparse(s1))
    # fd.write(data)
    s2 = b[2]
    fdname = fn.args.args[2].arg
    if not (isinstance(s2, ast.Expr) and isinstance(s2.value, ast.Call) and ast.unparse(s2.value.func) == fdname + ".write"
            and len(s2.value.args) == 1 and isinstance(s2.value.args[0], ast.Name) and s2.value.args[0].id == data):
        raise Unsupported("third statement is not `fd.write(data)`: " + ast.unparse(s2))
    # data independence: `data` appears only in the three recognised places
    uses = [n for n in ast.walk(loop) if isinstance(n, ast.Name) and n.id == data]
    if len(uses) != 3:
        raise Unsupported("`%s` is used %d times (expected: assigned, tested for emptiness, written)" % (data, len(uses)))
    return K, src


def fn_copyto_invariant(timeout=60):
    """Inductive proof (LIA) that the loop writes bytes [0, N) of the file in order:
       state (pos, out): file offset and number of bytes written; Inv: 0 <= pos <= N and out = pos
       and the bytes written so far are file[0:pos] (tracked as: every write of length len goes to
       output offset `out` and carries file[pos:pos+len]).
       read contract: 0 <= len <= min(K, N - pos); len = 0 implies pos = N (EOF only)."""
    fns = ["pygopherd.handlers.base.VFS_Real.copyto (loop shape and block size from the AST)"]
    try:
        K, src = _copyto_shape()
    except Unsupported as e:
        return {"status": "inconclusive", "detail": "Unsupported: %s" % e, "functions": fns}
    pre = """
(set-logic QF_LIA)
(declare-const N Int) (declare-const pos Int) (declare-const out Int) (declare-const len Int)
(declare-const pos2 Int) (declare-const out2 Int) (declare-const wr_src Int) (declare-const wr_dst Int)
(define-fun K () Int %d)
(define-fun Inv ((p Int) (o Int)) Bool (and (<= 0 p) (<= p N) (= o p)))
(assert (>= N 0))
; read contract
(define-fun Read ((p Int) (l Int)) Bool (and (<= 0 l) (<= l K) (<= l (- N p)) (=> (= l 0) (= p N))))
""" % K
    queries = {
        "init": pre + "(assert (not (Inv 0 0)))\n(check-sat)\n",
        "step": pre + """
(assert (Inv pos out)) (assert (Read pos len)) (assert (> len 0))
; the chunk read is file[pos:pos+len]; it is written unmodified at output offset out
(assert (= wr_src pos)) (assert (= wr_dst out))
(assert (= pos2 (+ pos len))) (assert (= out2 (+ out len)))
(assert (not (and (Inv pos2 out2) (= wr_src wr_dst))))
(check-sat)
""",
        "exit": pre + "(assert (Inv pos out)) (assert (Read pos len)) (assert (= len 0))\n(assert (not (= out N)))\n(check-sat)\n",
        "progress": pre + "(assert (Inv pos out)) (assert (Read pos len)) (assert (> len 0))\n(assert (not (< (- N (+ pos len)) (- N pos))))\n(check-sat)\n",
    }
    total, dets, bad = 0.0, {}, []
    for name, q in queries.items():
        v, det, secs, _ = both(q, timeout=timeout)
        total += secs
        dets[name] = det
        if v != "unsat":
            bad.append((name, v))
    # vacuity: premises of the step are satisfiable
    v, det, secs, _ = both(pre + "(assert (Inv pos out)) (assert (Read pos len)) (assert (> len 0))\n(check-sat)\n", timeout=timeout)
    total += secs
    res = {"queries": 2 * (len(queries) + 1), "solver_s": round(total, 2), "functions": fns,
           "samples": [{"block_size": K, "queries": dets}], "twin": "ok" if v == "sat" else "vacuous",
           "twin_witness": "step premises satisfiable: %s" % (det,)}
    if bad:
        res["status"] = "inconclusive"
        res["detail"] = "invariant query not unsat: %r" % (bad,)
    else:
        res["status"] = "discharged" if v == "sat" else "inconclusive"
        res["detail"] = "init/step/exit/progress unsat in z3 and cvc5: for every file size N the loop writes file[0:N] in order (block size %d)" % K
    return res
