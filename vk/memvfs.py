"""An in-memory stand-in for the file system behind pygopherd's VFS layer.

MemVFS subclasses the real VFS_Real and overrides only the methods that touch the OS
(stat/isdir/isfile/exists/open/listdir/unlink); getfspath/getrootpath/copyto are the real
ones.  Every access is logged as (op, selector).  Node contents may be symbolic.
"""
from __future__ import annotations

import errno
import stat as statmod

from pygopherd.handlers import base as _base

S_DIR = 0o040755
S_REG = 0o100644
S_REGX = 0o100755
S_FIFO = 0o010644
S_SOCK = 0o140755


class Dir:
    def __init__(self, names, mtime=1000):
        self.names = names
        self.mtime = mtime
        self.mode = S_DIR
        self.size = 4096


class WouldBlockForever(Exception):
    """open() on a FIFO nobody writes to never returns; modelled as an exception no server code handles."""


class File:
    def __init__(self, data=b"", mode=S_REG, mtime=1000, size=None, open_err=None):
        self.open_err = open_err  # stat succeeds but open fails with this errno (deleted / made unreadable in between)
        self.data = data  # bytes, or list of str lines (symbolic friendly)
        self.mode = mode
        self.mtime = mtime
        self._size = size

    @property
    def size(self):
        if self._size is not None:
            return self._size
        if isinstance(self.data, (bytes, bytearray)):
            return len(self.data)
        n = 0
        for l in self.data:
            n += len(l)
        return n


class Special:
    def __init__(self, mode=S_FIFO, mtime=1000):
        self.mode = mode
        self.mtime = mtime
        self.size = 0


class Fail:
    """stat() on this path raises the given OSError errno (the name may still be listed)."""

    def __init__(self, err=errno.ENOENT):
        self.err = err


class _Line:
    """A bytes-like line whose decode() yields a (possibly symbolic) str."""

    def __init__(self, s):
        self.s = s

    def decode(self, *a, **kw):
        return self.s

    def __len__(self):
        return len(self.s)

    def __bool__(self):
        return len(self.s) > 0


class MemFile:
    def __init__(self, vfs, selector, node, mode, errors=None):
        self.vfs, self.selector, self.node, self.mode = vfs, selector, node, mode
        self.errors = errors or "strict"  # like open(): text mode decodes strictly unless told otherwise
        self.closed = False
        self.pos = 0
        self.text = "b" not in mode
        d = node.data
        if isinstance(d, (bytes, bytearray)):
            self.kind = "bytes"
        else:
            self.kind = "lines"
        vfs.opened.append(self)

    # context manager
    def __enter__(self):
        return self

    def __exit__(self, *a):
        self.close()
        return False

    def close(self):
        self.closed = True

    def fileno(self):
        raise OSError("MemFile has no fileno")

    def _bytes_readline(self):
        d = self.node.data
        i = d.find(b"\n", self.pos)
        end = len(d) if i < 0 else i + 1
        r = d[self.pos:end]
        self.pos = end
        return r

    def readline(self, *a):
        if self.kind == "bytes":
            r = self._bytes_readline()
            return r.decode("utf-8", self.errors) if self.text else r
        if self.pos < len(self.node.data):
            s = self.node.data[self.pos]
            self.pos += 1
            if self.text:
                return s
            return s.encode("utf-8", "surrogateescape") if type(s) is str else _Line(s)
        return "" if self.text else b""

    def readlines(self, hint=-1):
        out = []
        while True:
            l = self.readline()
            if not l:
                break
            out.append(l)
        return out

    def read(self, n=-1):
        if self.kind == "bytes":
            d = self.node.data
            if n is None or n < 0:
                n = len(d) - self.pos
            r = d[self.pos:self.pos + n]
            self.pos += len(r)
            return r.decode("utf-8", self.errors) if self.text else r
        # lines: hand out one line per read call (a legal short read)
        if self.pos < len(self.node.data):
            s = self.node.data[self.pos]
            self.pos += 1
            return s if self.text else s.encode("utf-8", "surrogateescape")
        return "" if self.text else b""

    def __iter__(self):
        return iter(self.readlines())


class MemWriter:
    def __init__(self, vfs, selector):
        self.vfs, self.selector = vfs, selector
        self.chunks = []
        self.closed = False
        vfs.opened.append(self)

    def write(self, b):
        self.chunks.append(b)
        return len(b)

    def __enter__(self):
        return self

    def __exit__(self, *a):
        self.close()
        return False

    # update-mode handles ("r+b", "a"): enough of the file API for code that rewrites in place
    def truncate(self, size=None):
        self.truncated = True
        return 0

    def seek(self, pos, whence=0):
        return 0

    def tell(self):
        return sum(len(c) for c in self.chunks)

    def flush(self):
        pass

    def close(self):
        if not self.closed:
            self.closed = True
            self.vfs.written[self.selector] = self.chunks
            if self.vfs.on_write is not None:
                self.vfs.on_write(self.selector, self.chunks)


class MemVFS(_base.VFS_Real):
    def __init__(self, config, nodes, real=True, writable=True, clock=None):
        super().__init__(config)
        self.nodes = nodes
        self.log = []
        self.opened = []
        self.written = {}
        self.on_write = None
        self._real = real
        self._writable = writable
        self.clock = clock

    # -- helpers
    def _norm(self, selector):
        # the OS treats repeated and trailing slashes as one / none
        while "//" in selector:
            selector = selector.replace("//", "/")
        if len(selector) > 1 and selector[-1] == "/":
            return selector[:-1]
        if selector == "":
            return "/"
        return selector

    def _node(self, op, selector):
        self.log.append((op, selector))
        if "\0" in selector:
            raise ValueError("embedded null byte")
        key = self._norm(selector)
        n = self.nodes.get(key)
        return n

    def isreal(self):
        return self._real

    def iswritable(self, selector):
        return self._writable

    def stat(self, selector):
        n = self._node("stat", selector)
        if n is None:
            raise FileNotFoundError(errno.ENOENT, "No such file or directory", selector)
        if isinstance(n, Fail):
            raise OSError(n.err, "stat failed", selector)
        return (n.mode, 0, 0, 1, 0, 0, n.size, 0, n.mtime, n.mtime)

    def isdir(self, selector):
        n = self._node("isdir", selector)
        return isinstance(n, Dir)

    def isfile(self, selector):
        n = self._node("isfile", selector)
        return isinstance(n, File)

    def exists(self, selector):
        n = self._node("exists", selector)
        return n is not None and not isinstance(n, Fail)

    def listdir(self, selector):
        n = self._node("listdir", selector)
        if n is None:
            raise FileNotFoundError(errno.ENOENT, "No such file or directory", selector)
        if not isinstance(n, Dir):
            raise NotADirectoryError(errno.ENOTDIR, "Not a directory", selector)
        return list(n.names)

    def unlink(self, selector):
        self._node("unlink", selector)
        self.nodes.pop(self._norm(selector), None)

    def open(self, selector, mode, errors=None):
        n = self._node("open:" + mode, selector)
        if "w" in mode or "+" in mode or "a" in mode or "x" in mode:
            if not self._writable:
                raise PermissionError(errno.EACCES, "read-only", selector)
            if "r" in mode and n is None:
                raise FileNotFoundError(errno.ENOENT, "No such file or directory", selector)
            return MemWriter(self, selector)
        if n is None:
            raise FileNotFoundError(errno.ENOENT, "No such file or directory", selector)
        if isinstance(n, Fail):
            raise OSError(n.err, "open failed", selector)
        if isinstance(n, Dir):
            raise IsADirectoryError(errno.EISDIR, "Is a directory", selector)
        if isinstance(n, Special):
            if n.mode == S_FIFO:
                raise WouldBlockForever(selector)
            raise OSError(errno.ENXIO, "No such device or address", selector)
        if n.open_err is not None:
            raise OSError(n.open_err, "open failed", selector)
        return MemFile(self, selector, n, mode, errors)


def install(vfs):
    """Make every `VFS_Real(config)` constructed inside pygopherd return `vfs`."""
    from pygopherd.handlers import HandlerMultiplexer

    factory = lambda config, chain=None: vfs  # noqa: E731
    HandlerMultiplexer.VFS_Real = factory
    _base_mod = _base

    # BaseHandler.__init__ looks VFS_Real up in handlers.base's globals
    _base_mod.__dict__["_vk_saved_VFS_Real"] = _base_mod.__dict__.get("_vk_saved_VFS_Real", _base_mod.VFS_Real)
    _base_mod.VFS_Real = _Factory(vfs, _base_mod.__dict__["_vk_saved_VFS_Real"])


class _Factory:
    """Callable that returns the installed vfs but still works for isinstance() checks."""

    def __init__(self, vfs, cls):
        self.vfs = vfs
        self.cls = cls

    def __call__(self, config, chain=None):
        return self.vfs

    def __instancecheck__(self, inst):
        return isinstance(inst, self.cls)


def uninstall():
    from pygopherd.handlers import HandlerMultiplexer

    saved = _base.__dict__.get("_vk_saved_VFS_Real")
    if saved is not None:
        _base.VFS_Real = saved
        HandlerMultiplexer.VFS_Real = saved
