#!/bin/sh
# usage: sh vk/seedtest_wt.sh <property> [pattern] [tier]
# Runs the property's check against every seeded change matching the pattern, each in its OWN scratch
# worktree of /repo (so /repo itself stays untouched and several of these can run at once).
PROP="$1"; PAT="${2:-}"; TIER="${3:-quick}"
HERE="$(cd "$(dirname "$0")/.." && pwd)"; cd "$HERE"
sh vk/bootstrap.sh || exit 3
for d in seeded/$PROP-* seeded/own-$PROP-* seeded/neutral-$PROP-* $VK_EXTRA_SEEDS; do
  [ -f "$HERE/$d/patch.diff" ] || continue
  case "$d" in *"$PAT"*) ;; *) continue;; esac
  ID="$(basename $d)"
  WT="/tmp/wt/st-$ID"; SC="/tmp/vkst-$ID"
  rm -rf "$WT" "$SC"; git -C /repo worktree prune
  git -C /repo worktree add --detach "$WT" HEAD -q || { echo "$ID: WORKTREE FAILED"; continue; }
  if ! git -C "$WT" apply "$HERE/$d/patch.diff" 2>/dev/null; then echo "$ID: PATCH DOES NOT APPLY to the current tree (later repairs rewrote the same lines; recorded base: $(grep -o '"base_commit": *"[0-9a-f]*"' "$HERE/$d/meta.json" | grep -o '[0-9a-f]\{7,\}' || echo 'the fix commit in its name'))"; git -C /repo worktree remove --force "$WT"; continue; fi
  OUT="$(VK_NO_EVIDENCE=1 VK_REPO="$WT" PYTHONPATH="$WT" VK_SCRATCH="$SC" PYTHONDONTWRITEBYTECODE=1 "$HERE/.venv/bin/python" -m vk check "$PROP" --tier "$TIER" 2>&1)"; RC=$?
  V="$(echo "$OUT" | grep -c '^VIOLATION')"
  echo "$ID: rc=$RC violations=$V $(echo "$OUT" | grep -A1 '^VIOLATION' | grep 'sig=' | head -2 | sed 's/input=.*//' | tr '\n' ' ') | $(echo "$OUT" | tail -1 | cut -c1-140)"
  git -C /repo worktree remove --force "$WT"; rm -rf "$SC"
done
