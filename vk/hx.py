"""Harness-side helpers shared by harness/Cxx.py.

Everything here runs *inside* the analysed process (under CrossHair's tracer, or in a
plain interpreter during a replay).  Nothing here may depend on CrossHair.
"""
from __future__ import annotations

import configparser
import os
import types

REPO = os.environ.get("VK_REPO", "/repo")

# --------------------------------------------------------------------------- verdicts

TWIN = False  # set by generated reachability-twin wrappers


class Violation(Exception):
    """The property is violated.  `sig` is the normalised signature used to match
    known findings; `detail` is free text for the replay file."""

    def __init__(self, sig: str, detail: str = ""):
        super().__init__(sig + (": " + detail if detail else ""))
        self.sig = sig
        self.detail = detail


class Reached(Exception):
    """Raised by reach() in twin mode: the guarded assertion point was reached."""


def reach() -> None:
    """Marks the point where the property's assertion is evaluated on a non-trivial
    path.  In the reachability twin it ends the run with an error that must reproduce."""
    if TWIN:
        raise Reached("assertion point reached")


def require(cond, sig: str, detail="") -> None:
    """`detail` may be a callable (evaluated only on failure -- formatting symbolic values is
    expensive and forks paths)."""
    if not cond:
        raise Violation(sig, detail() if callable(detail) else detail)


# --------------------------------------------------------------------------- config


_CFG = None
_CFG_ITEMS = None


def load_config() -> configparser.ConfigParser:
    """The shipped configuration, read (once, outside any tracer) from the repo's working tree."""
    global _CFG, _CFG_ITEMS
    if _CFG is None:
        cp = configparser.ConfigParser()
        cp.read(os.path.join(REPO, "conf", "pygopherd.conf"))
        _CFG = cp
        _CFG_ITEMS = {}
        for s in cp.sections():
            for k, v in cp.items(s, raw=True):
                _CFG_ITEMS[(s, k)] = v
    return _CFG


def base_items() -> dict:
    load_config()
    return dict(_CFG_ITEMS)


class DictConfig:
    """A ConfigParser look-alike whose values are plain attributes (symbolic values
    can be stored without going through str())."""

    def __init__(self, base=None, **over):
        self.d = {}
        if base is True:
            self.d = base_items()
        elif base is not None:
            for s in base.sections():
                for k, v in base.items(s, raw=True):
                    self.d[(s, k)] = v
        for k, v in over.items():
            self.d[k] = v

    def set(self, s, k, v):
        self.d[(s, k)] = v

    def get(self, s, k, **kw):
        try:
            return self.d[(s, k)]
        except KeyError:
            raise configparser.NoOptionError(k, s)

    def has_option(self, s, k):
        return (s, k) in self.d

    def remove_option(self, s, k):
        return self.d.pop((s, k), None) is not None

    def getint(self, s, k, **kw):
        v = self.get(s, k)
        return v if isinstance(v, int) and not isinstance(v, bool) else int(v)

    def getboolean(self, s, k, **kw):
        v = self.get(s, k)
        if isinstance(v, bool):
            return v
        if isinstance(v, str):
            lv = v.lower()
            if lv in ("1", "yes", "true", "on"):
                return True
            if lv in ("0", "no", "false", "off"):
                return False
            raise ValueError("Not a boolean: %s" % v)
        return bool(v)


# --------------------------------------------------------------------------- misc stubs


class ListWriter:
    """Pure-Python wfile: collects written chunks (io.BytesIO realizes symbolics)."""

    def __init__(self):
        self.chunks = []
        self.flushed = 0

    def write(self, b):
        self.chunks.append(b)
        return len(b)

    def flush(self):
        self.flushed += 1

    def getvalue(self):
        out = b""
        for c in self.chunks:
            out += c
        return out

    def gettext(self):
        """The response as text (UTF-8/surrogateescape decoding of every chunk; works for the
        opaque SymBytes chunks the plugin produces for symbolic strings)."""
        from vk.symbytes import text_of

        out = ""
        for c in self.chunks:
            out = out + text_of(c)
        return out


class StrLine:
    """Stands for a bytes line read from a socket/file whose .decode() yields a given
    (possibly symbolic) str."""

    def __init__(self, s: str):
        self.s = s

    def decode(self, *a, **kw):
        return self.s

    def __len__(self):
        return len(self.s)

    def __bool__(self):
        return len(self.s) > 0


class LineReader:
    """rfile stub: readline() returns StrLine objects for the given str lines, then b''"""

    def __init__(self, lines):
        self.lines = list(lines)
        self.i = 0
        self.reads = []

    def readline(self, *a):
        if self.i < len(self.lines):
            s = self.lines[self.i]
            self.i += 1
            return StrLine(s)
        return StrLine("")

    def read(self, n=-1):
        self.reads.append(n)
        return StrLine("")


class Recorder:
    """Records calls as tuples; used for logger.log / GopherExceptions.log etc."""

    def __init__(self):
        self.calls = []

    def __call__(self, *a, **kw):
        self.calls.append((a, kw))


def ns(**kw):
    return types.SimpleNamespace(**kw)


SERVER_PORT = 70  # obligations about "this server's port" set another value for their run


def make_server(config, name="srv.example", port=None):
    return ns(server_name=name, server_port=(SERVER_PORT if port is None else port), config=config)


_TLS_CLS = None


def tls_socket():
    """An object for which isinstance(x, ssl.SSLSocket) holds, built without a handshake."""
    global _TLS_CLS
    import socket
    import ssl

    if _TLS_CLS is None:

        class _TLS(ssl.SSLSocket):
            def __new__(cls):
                return socket.socket.__new__(cls)

            def __init__(self):
                pass

            def __del__(self):
                pass

            def close(self):
                pass

        _TLS_CLS = _TLS
    return _TLS_CLS()


def make_rh(tls: bool, addr=("10.9.8.7", 4321)):
    return ns(request=(tls_socket() if tls else object()), client_address=addr)


_REAL_EXC_LOG = []


def real_exception_log():
    """Put the real GopherExceptions.log back (it formats the exception with str()); logger.log stays
    a recorder.  For obligations in which building the log message is part of what can go wrong."""
    from pygopherd import GopherExceptions

    if _REAL_EXC_LOG:
        GopherExceptions.log = _REAL_EXC_LOG[0]


def silence_logging():
    """Replace logger.log and GopherExceptions.log by recorders that never format.
    Returns (logrec, excrec)."""
    from pygopherd import GopherExceptions, logger

    if not _REAL_EXC_LOG and not isinstance(GopherExceptions.log, Recorder):
        _REAL_EXC_LOG.append(GopherExceptions.log)
    lr = Recorder()
    er = Recorder()
    logger.log = lr
    GopherExceptions.log = er
    return lr, er


def reset_lazies():
    """Forget every module-level lazily initialised table of pygopherd."""
    from pygopherd import gopherentry
    from pygopherd.handlers import HandlerMultiplexer, UMN, base

    HandlerMultiplexer.handlers = None
    HandlerMultiplexer.rootpath = None
    base.rootpath = None
    gopherentry.mapping = None
    gopherentry.eaexts = None
    UMN.extstrip = None


load_config()


# --------------------------------------------------------------------------- real-file fixtures

_SCRATCH = None


def scratch_testdata() -> str:
    """A private copy of the repo's testdata/ (real handlers write cache files into the
    served tree).  Created once per process, outside any tracer, removed at exit."""
    global _SCRATCH
    if _SCRATCH is None:
        import atexit
        import shutil
        import tempfile

        d = tempfile.mkdtemp(prefix="vk-%d-" % os.getpid())
        dst = os.path.join(d, "testdata")
        shutil.copytree(os.path.join(REPO, "testdata"), dst, symlinks=True)
        for dirpath, dirs, files in os.walk(dst):
            for f in files:
                if f.startswith(".cache.pygopherd"):
                    os.unlink(os.path.join(dirpath, f))
        # fixtures the repo's testdata lacks: mail folders containing a message without header lines
        fx = os.path.join(dst, "vkfix")
        os.makedirs(os.path.join(fx, "md", "new"))
        os.makedirs(os.path.join(fx, "md", "cur"))
        os.makedirs(os.path.join(fx, "md", "tmp"))
        with open(os.path.join(fx, "headerless.mbox"), "w") as f:
            f.write("From alice@example.org Sat Jan  3 01:05:34 1996\nSubject: first\n\nbody one\n\n"
                    "From alice@example.org Sat Jan  3 01:05:35 1996\n\nThis message has a body but no header lines.\n\n"
                    "From alice@example.org Sat Jan  3 01:05:36 1996\nSubject: third\n\nbody three\n")
        with open(os.path.join(fx, "md", "new", "1700000000.1.host"), "w") as f:
            f.write("\nA Maildir message without header lines.\n")
        atexit.register(shutil.rmtree, d, True)
        _SCRATCH = dst
    return _SCRATCH


FULL_HANDLERS = (
    "[url.HTMLURLHandler, gophermap.BuckGophermapHandler, mbox.MaildirFolderHandler, "
    "mbox.MaildirMessageHandler, ZIP.ZIPHandler, UMN.UMNDirHandler, html.HTMLFileTitleHandler, "
    "mbox.MBoxMessageHandler, mbox.MBoxFolderHandler, pyg.PYGHandler, scriptexec.ExecHandler, "
    "tal.TALFileHandler, file.CompressedFileHandler, file.FileHandler]"
)


def real_config(full_handlers: bool = False, **over) -> "DictConfig":
    cfg = DictConfig(True)
    cfg.set("pygopherd", "root", scratch_testdata())
    if full_handlers:
        cfg.set("handlers.HandlerMultiplexer", "handlers", FULL_HANDLERS)
        cfg.set("handlers.ZIP.ZIPHandler", "enabled", "true")
        cfg.set("handlers.file.CompressedFileHandler", "decompressors", "{'gzip' : 'zcat'}")
    for k, v in over.items():
        cfg.set(*k, v) if isinstance(k, tuple) else None
    return cfg


class BytesReader:
    """rfile over concrete bytes (no io.BytesIO under the tracer)."""

    def __init__(self, data: bytes):
        self.data = data
        self.pos = 0

    def readline(self, *a):
        i = self.data.find(b"\n", self.pos)
        end = len(self.data) if i < 0 else i + 1
        r = self.data[self.pos:end]
        self.pos = end
        return r

    def read(self, n=-1):
        if n is None or n < 0:
            n = len(self.data) - self.pos
        r = self.data[self.pos:self.pos + n]
        self.pos += len(r)
        return r

    def close(self):
        pass


def make_request_handler(rfile, wfile, config, tls=False, addr=("10.9.8.7", 4321)):
    """A real GopherRequestHandler wired to the given files without running a server."""
    from pygopherd.server import GopherRequestHandler

    h = GopherRequestHandler.__new__(GopherRequestHandler)
    h.rfile = rfile
    h.wfile = wfile
    h.request = tls_socket() if tls else object()
    h.client_address = addr
    h.server = make_server(config)
    return h


def init_encodings_like_server():
    """What initialization.init_mimetypes does to the encodings map at start-up (the TAL handler
    relies on the '.tal' pseudo-encoding); the types map itself is left at the stdlib default."""
    import mimetypes

    mimetypes.init()
    enc = eval(load_config().get("pygopherd", "encoding"), {"mimetypes": mimetypes})
    mimetypes.encodings_map.clear()
    for k, v in enc:
        mimetypes.encodings_map[k] = v


init_encodings_like_server()


def py_normpath(path):
    """Pure-Python posixpath.normpath (CPython 3.11's implementation; 3.12 moved it to C, which
    cannot take symbolic strings).  Validated against the real function at import."""
    sep, empty, dot, dotdot = "/", "", ".", ".."
    if path == empty:
        return dot
    initial_slashes = path.startswith(sep)
    if initial_slashes and path.startswith(sep * 2) and not path.startswith(sep * 3):
        initial_slashes = 2
    comps = path.split(sep)
    new_comps = []
    for comp in comps:
        if comp in (empty, dot):
            continue
        if comp != dotdot or (not initial_slashes and not new_comps) or (new_comps and new_comps[-1] == dotdot):
            new_comps.append(comp)
        elif new_comps:
            new_comps.pop()
    comps = new_comps
    path = sep.join(comps)
    if initial_slashes:
        path = sep * initial_slashes + path
    return path or dot


def _validate_normpath():
    import itertools
    import posixpath

    for n in range(0, 6):
        for t in itertools.product("./a", repeat=n):
            s = "".join(t)
            assert py_normpath(s) == posixpath.normpath(s), s


_validate_normpath()


def install_py_normpath():
    """Route os.path.normpath inside pygopherd.handlers.UMN to the pure-Python model."""
    import os

    from pygopherd.handlers import UMN

    class _P:
        def __getattr__(self, n):
            return getattr(os.path, n)

    p = _P()
    p.normpath = py_normpath
    UMN.os = ns(path=p)
