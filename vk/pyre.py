"""Engine RE ("pyre"): symbolic execution of the AST of a Python string predicate over ONE input
string, producing z3 regular expressions:  L_true, L_false, L_raise (and L_env: decided by
something other than the input, e.g. HTTP headers).  String length is unbounded.

Representation
  * a string value is a chain of operations from the single input (strip, part(sep,i), wpart(i),
    slice(a,b), index(i), from(a));  pull(chain, L) = language of inputs whose value lies in L
    (and for which the chain is defined);
  * a boolean is a pair (true-language, defined-language) so that short-circuit and/or and
    "evaluating this raises" are exact;
  * statements are executed path-wise; the path condition is itself a regex.
Every solver query is membership of one string variable in one regex (z3 decides these by
derivatives, in milliseconds).  Anything outside the supported subset raises Unsupported.
"""
from __future__ import annotations

import ast
import inspect
import textwrap
import time

import z3

try:
    import re._constants as sc
    import re._parser as sp
except ImportError:  # pragma: no cover
    import sre_constants as sc
    import sre_parse as sp

S = z3.StringSort()
RS = z3.ReSort(S)
ANY = z3.AllChar(RS)
ALL = z3.Star(ANY)
EMPTY = z3.Empty(RS)
EPS = z3.Re(z3.StringVal(""))


def lit(s):
    return z3.Re(z3.StringVal(s))


def U(*rs):
    rs = [r for r in rs if r is not EMPTY]
    if not rs:
        return EMPTY
    return rs[0] if len(rs) == 1 else z3.Union(*rs)


def I(*rs):
    if any(r is EMPTY for r in rs):
        return EMPTY
    rs = [r for r in rs if r is not ALL]
    if not rs:
        return ALL
    return rs[0] if len(rs) == 1 else z3.Intersect(*rs)


def C(r):
    if r is EMPTY:
        return ALL
    if r is ALL:
        return EMPTY
    return z3.Complement(r)


def CAT(*rs):
    rs = [r for r in rs if r is not EPS]
    if not rs:
        return EPS
    return rs[0] if len(rs) == 1 else z3.Concat(*rs)


def POW(r, n):
    return EPS if n == 0 else CAT(*([r] * n))


def OPT(r):
    return z3.Option(r)


WS_CHARS = [9, 10, 11, 12, 13, 28, 29, 30, 31, 32, 0x85, 0xA0, 0x1680] + list(range(0x2000, 0x200B)) + [0x2028, 0x2029, 0x202F, 0x205F, 0x3000]
WS = U(*[lit(chr(c)) for c in WS_CHARS])
NWS = I(ANY, C(WS))
BOUNDED = U(EPS, NWS, CAT(NWS, ALL, NWS))  # strings that strip() leaves unchanged
ASCII = z3.Star(z3.Range("\x00", "\x7f"))
DIGITS = z3.Plus(z3.Range("0", "9"))
TOK = z3.Plus(NWS)


def notc(c):
    return I(ANY, C(lit(c)))


class Unsupported(Exception):
    pass


_QUERIES = {"n": 0, "s": 0.0}


def _check(r, timeout_ms=20000):
    """Is the language r non-empty?  Returns (verdict, witness)."""
    x = z3.String("x")
    s = z3.Solver()
    s.set("timeout", timeout_ms)
    s.add(z3.InRe(x, r))
    t0 = time.time()
    v = s.check()
    _QUERIES["n"] += 1
    _QUERIES["s"] += time.time() - t0
    if v == z3.sat:
        return "sat", decode(s.model()[x])
    return str(v), None


def decode(zs):
    """z3 string value -> Python str (z3 prints non-printables as \\u{HEX})."""
    import re as _re

    s = zs.as_string()
    return _re.sub(r"\\u\{([0-9a-fA-F]+)\}", lambda m: chr(int(m.group(1), 16)), s)


def is_empty(r):
    v, w = _check(r)
    if v == "unsat":
        return True, None
    if v == "sat":
        return False, w
    raise Unsupported("solver verdict %s" % v)


def witnesses(r, n, timeout_ms=5000):
    x = z3.String("x")
    s = z3.Solver()
    s.set("timeout", timeout_ms)
    s.add(z3.InRe(x, r))
    out = []
    while len(out) < n:
        t0 = time.time()
        v = s.check()
        _QUERIES["n"] += 1
        _QUERIES["s"] += time.time() - t0
        if v != z3.sat:
            break
        val = s.model()[x]
        out.append(decode(val))
        s.add(x != val)
    return out


def _eps_in(L):
    s = z3.Solver()
    s.add(z3.InRe(z3.StringVal(""), L))
    _QUERIES["n"] += 1
    return s.check() == z3.sat


def _eps_if(L):
    """Sigma* if "" in L else empty (needed for slices of short strings)."""
    return ALL if _eps_in(L) else EMPTY


# ------------------------------------------------------------------ Python `re` pattern -> z3 Re

NL = lit("\n")
DOT = I(ANY, C(NL))
_CATS = {}


def _category(cat):
    if cat == sc.CATEGORY_DIGIT:
        return z3.Range("0", "9")  # ASCII digits only: Unicode digits make this an under-approximation -> flagged
    if cat == sc.CATEGORY_SPACE:
        return WS
    if cat == sc.CATEGORY_NOT_SPACE:
        return NWS
    raise Unsupported("regex category %s" % cat)


def _conv(op, av):
    if op == sc.LITERAL:
        return lit(chr(av))
    if op == sc.NOT_LITERAL:
        return notc(chr(av))
    if op == sc.ANY:
        return DOT
    if op == sc.IN:
        neg = bool(av) and av[0][0] == sc.NEGATE
        parts = []
        for o, a in (av[1:] if neg else av):
            if o == sc.LITERAL:
                parts.append(lit(chr(a)))
            elif o == sc.RANGE:
                parts.append(z3.Range(chr(a[0]), chr(a[1])))
            elif o == sc.CATEGORY:
                parts.append(_category(a))
            else:
                raise Unsupported("regex class item %s" % o)
        u = U(*parts)
        return I(ANY, C(u)) if neg else u
    if op in (sc.MAX_REPEAT, sc.MIN_REPEAT):
        lo, hi, sub = av
        r = _cat_items(sub)
        if hi == sc.MAXREPEAT:
            return z3.Star(r) if lo == 0 else CAT(POW(r, lo), z3.Star(r))
        return z3.Loop(r, lo, hi)
    if op == sc.SUBPATTERN:
        return _cat_items(av[3])
    if op == sc.BRANCH:
        return U(*[_cat_items(alt) for alt in av[1]])
    raise Unsupported("regex op %s" % op)


def _cat_items(items):
    items = list(items)
    for o, a in items:
        if o == sc.AT:
            raise Unsupported("anchor inside a pattern")
    return CAT(*[_conv(o, a) for o, a in items])


def regex_lang(pattern, mode="search"):
    """Language of strings on which re.search / re.match (mode) of the constant pattern succeeds."""
    if isinstance(pattern, bytes):
        raise Unsupported("bytes pattern")
    tree = sp.parse(pattern)
    if tree.state.flags & ~(sc.SRE_FLAG_UNICODE):
        raise Unsupported("regex flags")
    if len(tree) == 1 and tree[0][0] == sc.BRANCH:
        tops = [list(alt) for alt in tree[0][1][1]]
    else:
        tops = [list(tree)]
    outs = []
    for items in tops:
        a0 = a1 = False
        if items and items[0][0] == sc.AT and items[0][1] in (sc.AT_BEGINNING, sc.AT_BEGINNING_STRING):
            a0, items = True, items[1:]
        if items and items[-1][0] == sc.AT and items[-1][1] == sc.AT_END:
            a1, items = True, items[:-1]
        r = _cat_items(items)
        pre = [] if (a0 or mode == "match") else [ALL]
        post = [OPT(NL)] if a1 else [ALL]
        outs.append(CAT(*(pre + [r] + post)))
    return U(*outs)


# ------------------------------------------------------------------ abstract values


class T:
    """A string derived from the input by a chain of operations."""

    def __init__(self, ops=()):
        self.ops = tuple(ops)

    def then(self, op):
        return T(self.ops + (op,))

    def pull(self, L):
        """inputs for which the term is defined and its value is in L"""
        for op in reversed(self.ops):
            k = op[0]
            if k == "strip":
                L = CAT(z3.Star(WS), I(L, BOUNDED), z3.Star(WS))
            elif k == "lstrip":
                L = CAT(z3.Star(WS), I(L, U(EPS, CAT(NWS, ALL))))
            elif k == "rstrip":
                L = CAT(I(L, U(EPS, CAT(ALL, NWS))), z3.Star(WS))
            elif k == "part":
                _, sep, i = op
                F = z3.Star(notc(sep))
                L = CAT(POW(CAT(F, lit(sep)), i), I(L, F), OPT(CAT(lit(sep), ALL)))
            elif k == "lastpart":
                _, sep = op
                F = z3.Star(notc(sep))
                L = CAT(OPT(CAT(ALL, lit(sep))), I(L, F))
            elif k == "wpart":
                _, i = op
                L = CAT(z3.Star(WS), POW(CAT(TOK, z3.Plus(WS)), i), I(L, TOK), OPT(CAT(z3.Plus(WS), ALL)))
            elif k == "slice":
                _, a, b = op
                n = b - a
                if n < 0:
                    n = 0
                parts = [CAT(POW(ANY, a), I(L, POW(ANY, n)), ALL)]
                if n > 0:
                    parts.append(CAT(POW(ANY, a), I(L, z3.Loop(ANY, 0, n - 1))))
                if a > 0:
                    parts.append(I(z3.Loop(ANY, 0, a - 1), _eps_if(L)))
                L = U(*parts)
            elif k == "index":
                _, i = op
                L = CAT(POW(ANY, i), I(L, ANY), ALL)
            elif k == "negindex":  # x[-1]
                _, i = op
                L = CAT(ALL, I(L, ANY), POW(ANY, i - 1))
            elif k == "from":
                _, a = op
                L = U(CAT(POW(ANY, a), L), I(z3.Loop(ANY, 0, a), _eps_if(L))) if a > 0 else L
            elif k == "upto_last":  # x[:-n]
                _, n = op
                L = U(CAT(L, POW(ANY, n)), I(z3.Loop(ANY, 0, n), _eps_if(L)))
            else:
                raise Unsupported("string op " + k)
        return L

    def defined(self):
        return self.pull(ALL)


class Lst:
    """x.split(sep) (sep a constant char) / x.split() (sep None), optionally with every item stripped."""

    def __init__(self, base, sep, strip=False):
        self.base, self.sep, self.strip = base, sep, strip

    def item(self, i):
        if self.sep is None:
            return self.base.then(("wpart", i))
        t = self.base.then(("part", self.sep, i))
        return t.then(("strip",)) if self.strip else t

    def last(self):
        if self.sep is None:
            raise Unsupported("[-1] of whitespace split")
        t = self.base.then(("lastpart", self.sep))
        return t.then(("strip",)) if self.strip else t

    def arity(self, n):
        if self.sep is None:
            if n == 0:
                return self.base.pull(z3.Star(WS))
            return self.base.pull(CAT(z3.Star(WS), TOK, POW(CAT(z3.Plus(WS), TOK), n - 1), z3.Star(WS)))
        if n <= 0:
            return EMPTY
        F = z3.Star(notc(self.sep))
        return self.base.pull(CAT(POW(CAT(F, lit(self.sep)), n - 1), F))

    def arity_ge(self, n):
        if self.sep is None:
            if n <= 0:
                return self.base.defined()
            return self.base.pull(CAT(z3.Star(WS), TOK, POW(CAT(z3.Plus(WS), TOK), n - 1), OPT(CAT(z3.Plus(WS), ALL))))
        if n <= 1:
            return self.base.defined()
        F = z3.Star(notc(self.sep))
        return self.base.pull(CAT(POW(CAT(F, lit(self.sep)), n - 1), F, OPT(CAT(lit(self.sep), ALL))))

    def all_nonempty(self):
        if self.sep is None:
            return self.base.defined()
        F1 = z3.Plus(notc(self.sep))
        if self.strip:
            F1 = I(z3.Star(notc(self.sep)), CAT(z3.Star(WS), NWS, ALL))  # field with a non-blank character
            F1 = I(z3.Star(notc(self.sep)), C(z3.Star(WS)))
        return self.base.pull(CAT(F1, z3.Star(CAT(lit(self.sep), F1))))


class B:
    """boolean over the input: true-language t, defined-language d (outside d evaluation raises)"""

    def __init__(self, t, d=ALL):
        self.t, self.d = t, d


class Opaque:
    """a value that does not influence the verdict (e.g. a normalised selector)"""


class EnvDecided(Exception):
    """control reached a point decided by something other than the input string"""


# ------------------------------------------------------------------ the evaluator


class Ev:
    def __init__(self, cls, input_attr="request", tls=False, config=None, opaque_calls=(), env_calls=(), input_in_init=True):
        self.cls = cls
        self.tls = tls
        self.config = config
        self.opaque_calls = set(opaque_calls)
        self.env_calls = set(env_calls)
        self.results = {"True": EMPTY, "False": EMPTY, "raise": EMPTY, "env": EMPTY}
        self.input_attr = input_attr
        self.functions = []
        self.depth = 0

    # -- source access
    def method_ast(self, name, start_cls=None, after=None):
        mro = list((start_cls or self.cls).__mro__)
        if after is not None:
            mro = mro[mro.index(after) + 1:]
        for k in mro:
            if name in k.__dict__:
                f = k.__dict__[name]
                f = getattr(f, "__func__", f)
                src = textwrap.dedent(inspect.getsource(f))
                fn = ast.parse(src).body[0]
                self.functions.append("%s.%s.%s" % (k.__module__, k.__qualname__, name))
                return fn, k
        raise Unsupported("no method " + name)

    def add(self, key, L):
        if L is EMPTY:
            return
        if key == "raise":
            # keep L_raise syntactically empty whenever the contribution is semantically empty
            v, _ = _check(L, 10000)
            if v == "unsat":
                return
        self.results[key] = U(self.results[key], L)

    # -- entry points
    def run_protocol(self, method="canhandlerequest"):
        """BaseGopherProtocol-style: __init__(request, ...) then method()."""
        env = {"request": T(), "self": {}}
        fn, k = self.method_ast("__init__")
        while self._is_pure_super_init(fn):
            fn, k = self.method_ast("__init__", after=k)
        states = self.block(self._body(fn), env, ALL, init_mode=True, owner=k)
        fn, k = self.method_ast(method)
        for env2, pc2 in states:
            env2 = dict(env2)
            env2.pop("request", None)
            self.run_fn(fn, env2, pc2, owner=k, top=True)
        return self.results

    def run_handler(self, method="isrequestsecure"):
        env = {"self": {"selector": T()}}
        fn, k = self.method_ast(method)
        self.run_fn(fn, env, ALL, owner=k, top=True)
        return self.results

    def _is_pure_super_init(self, fn):
        b = self._body(fn)
        return len(b) == 1 and isinstance(b[0], ast.Expr) and isinstance(b[0].value, ast.Call) and ast.unparse(b[0].value.func) == "super().__init__"

    @staticmethod
    def _body(fn):
        b = fn.body
        if b and isinstance(b[0], ast.Expr) and isinstance(b[0].value, ast.Constant) and isinstance(b[0].value.value, str):
            b = b[1:]
        return b

    def run_fn(self, fn, env, pc, owner, top=False):
        """Runs a function body; returns list of (env, pc, value) for each return path (value a
        concrete bool/None, or records into results when top)."""
        self.depth += 1
        if self.depth > 6:
            raise Unsupported("call depth")
        rets = []
        fall = self.block(self._body(fn), env, pc, owner=owner, rets=rets)
        for e, p in fall:  # falling off the end returns None
            rets.append((e, p, None))
        self.depth -= 1
        if top:
            for e, p, v in rets:
                self.add("True" if v else "False", p)
            return None
        return rets

    # -- statements
    def block(self, stmts, env, pc, init_mode=False, owner=None, rets=None):
        states = [(env, pc)]
        for st in stmts:
            nxt = []
            for e, p in states:
                nxt += self.stmt(st, e, p, init_mode, owner, rets)
            states = nxt
            if not states:
                break
        return states

    def hoist_calls(self, node, env, pc, owner):
        """Fork on every inlineable multi-statement method call inside `node`.  Returns list of
        (node', env', pc')."""
        calls = [n for n in ast.walk(node) if isinstance(n, ast.Call) and self._inlineable(n, owner) is not None]
        if not calls:
            return [(node, env, pc)]
        call = calls[0]
        fn, k = self._inlineable(call, owner)
        b = self._body(fn)
        if len(b) == 1 and isinstance(b[0], ast.Return):
            # single-expression method: substitute its return expression
            new = _replace(node, call, b[0].value)
            return self.hoist_calls(new, env, pc, k if False else owner)
        out = []
        for e2, p2, v in self.run_fn(fn, env, pc, owner=k):
            new = _replace(node, call, ast.Constant(value=v))
            out += self.hoist_calls(new, e2, p2, owner)
        return out

    def _inlineable(self, call, owner):
        f = call.func
        if not isinstance(f, ast.Attribute):
            return None
        name = f.attr
        if name in ("check_tls",) or name in self.opaque_calls or name in self.env_calls:
            return None
        try:
            if isinstance(f.value, ast.Name) and f.value.id == "self" and not call.args:
                if any(name in k.__dict__ for k in self.cls.__mro__ if k is not object) and callable(getattr(self.cls, name, None)):
                    return self.method_ast(name)
            if ast.unparse(f.value) == "super()" and owner is not None:
                return self.method_ast(name, after=owner)
            if isinstance(f.value, ast.Name) and len(call.args) == 1 and ast.unparse(call.args[0]) == "self":
                for k in self.cls.__mro__:
                    if k.__name__ == f.value.id and name in k.__dict__:
                        return self.method_ast(name, start_cls=k)
        except Unsupported:
            return None
        return None

    def stmt(self, st, env, pc, init_mode, owner, rets):
        if isinstance(st, ast.Expr) and isinstance(st.value, ast.Constant):
            return [(env, pc)]
        if isinstance(st, ast.Pass):
            return [(env, pc)]
        if isinstance(st, ast.Expr) and isinstance(st.value, ast.Call):
            f = st.value.func
            if isinstance(f, ast.Attribute) and f.attr in self.env_calls:
                # everything after this call is decided by the environment (e.g. HTTP headers)
                self.add("env", pc)
                return []
            if isinstance(f, ast.Attribute) and f.attr in self.opaque_calls:
                return [(env, pc)]
            if init_mode:
                return [(env, pc)]
        if isinstance(st, (ast.Assign, ast.AnnAssign)):
            targets = st.targets if isinstance(st, ast.Assign) else [st.target]
            if len(targets) != 1 or st.value is None:
                raise Unsupported("assignment form")
            out = []
            try:
                forks = self.hoist_calls(st.value, env, pc, owner)
            except Unsupported:
                if init_mode:
                    return [(env, pc)]
                raise
            for node, e2, p2 in forks:
                try:
                    v = self.expr(node, e2)
                except Unsupported:
                    if init_mode or self._irrelevant_target(targets[0]):
                        out.append((self.assign(targets[0], Opaque(), e2), p2))
                        continue
                    raise
                d = self.definedness(v)
                self.add("raise", I(p2, C(d)))
                out.append((self.assign(targets[0], v, e2), I(p2, d)))
            return out
        if isinstance(st, ast.If):
            out = []
            for node, e2, p2 in self.hoist_calls(st.test, env, pc, owner):
                b = self.tobool(self.expr(node, e2))
                self.add("raise", I(p2, C(b.d)))
                pt, pf = I(p2, b.d, b.t), I(p2, b.d, C(b.t))
                if pt is not EMPTY:
                    out += self.block(st.body, _copyenv(e2), pt, init_mode, owner, rets)
                if pf is not EMPTY:
                    out += self.block(st.orelse, _copyenv(e2), pf, init_mode, owner, rets)
            return out
        if isinstance(st, ast.Return):
            if rets is None:
                raise Unsupported("return outside function")
            if st.value is None:
                rets.append((env, pc, None))
                return []
            for node, e2, p2 in self.hoist_calls(st.value, env, pc, owner):
                b = self.tobool(self.expr(node, e2))
                self.add("raise", I(p2, C(b.d)))
                pt, pf = I(p2, b.d, b.t), I(p2, b.d, C(b.t))
                if pt is not EMPTY:
                    rets.append((e2, pt, True))
                if pf is not EMPTY:
                    rets.append((e2, pf, False))
            return []
        if isinstance(st, ast.Try):
            # try: X.encode("ascii") except UnicodeEncodeError: <body>
            if len(st.body) == 1 and isinstance(st.body[0], ast.Expr) and isinstance(st.body[0].value, ast.Call) and not st.finalbody and not st.orelse:
                call = st.body[0].value
                if (isinstance(call.func, ast.Attribute) and call.func.attr == "encode" and call.args and isinstance(call.args[0], ast.Constant)
                        and str(call.args[0].value).lower().replace("-", "").replace("_", "") in ("ascii", "usascii", "646") and len(st.handlers) == 1
                        and st.handlers[0].type is not None and ast.unparse(st.handlers[0].type) in ("UnicodeEncodeError", "UnicodeError", "ValueError", "Exception")):
                    errors = "strict"
                    if len(call.args) >= 2:
                        if not isinstance(call.args[1], ast.Constant):
                            raise Unsupported("encode with non-constant error handler")
                        errors = call.args[1].value
                    for kw in call.keywords:
                        if kw.arg == "errors" and isinstance(kw.value, ast.Constant):
                            errors = kw.value.value
                        else:
                            raise Unsupported("encode keyword " + str(kw.arg))
                    if len(call.args) > 2:
                        raise Unsupported("encode arguments")
                    t = self.expr(call.func.value, env)
                    if not isinstance(t, T):
                        raise Unsupported("encode receiver")
                    if errors == "strict":
                        ok = ASCII
                    elif errors == "surrogateescape":
                        ok = z3.Star(z3.Union(z3.Range("\x00", "\x7f"), z3.Range(chr(0xDC80), chr(0xDCFF))))
                    elif errors in ("ignore", "replace", "backslashreplace", "xmlcharrefreplace", "namereplace"):
                        ok = ALL
                    else:
                        raise Unsupported("encode error handler %r" % (errors,))
                    encodable = t.pull(ok)
                    out = self.block(st.handlers[0].body, _copyenv(env), I(pc, C(encodable)), init_mode, owner, rets)
                    return out + [(env, I(pc, encodable))]
            raise Unsupported("try statement")
        if isinstance(st, ast.For) and init_mode:
            return [(env, pc)]
        raise Unsupported("statement " + type(st).__name__ + ": " + ast.unparse(st)[:60])

    def _irrelevant_target(self, target):
        # writes into list elements / unrelated attributes after the verdict is fixed
        return isinstance(target, ast.Subscript)

    def assign(self, target, v, env):
        if isinstance(target, ast.Name):
            return dict(env, **{target.id: v})
        if isinstance(target, ast.Attribute) and isinstance(target.value, ast.Name) and target.value.id == "self":
            return dict(env, self=dict(env["self"], **{target.attr: v}))
        if isinstance(target, ast.Subscript):
            return env
        raise Unsupported("assign target " + ast.unparse(target))

    def definedness(self, v):
        if isinstance(v, T):
            return v.defined()
        if isinstance(v, B):
            return v.d
        if isinstance(v, Lst):
            return v.base.defined()
        return ALL

    def tobool(self, v):
        if isinstance(v, B):
            return v
        if isinstance(v, (bool, int)) or v is None:
            return B(ALL if v else EMPTY)
        if isinstance(v, str):
            return B(ALL if v else EMPTY)
        if isinstance(v, T):
            return B(v.pull(z3.Plus(ANY)), v.defined())
        if isinstance(v, Lst):  # a split result is never empty for sep-split
            if v.sep is None:
                return B(C(v.arity(0)), v.base.defined())
            return B(v.base.defined(), v.base.defined())
        raise Unsupported("truthiness of %r" % (type(v).__name__,))

    # -- expressions
    def expr(self, e, env):
        if isinstance(e, ast.Constant):
            return e.value
        if isinstance(e, ast.Tuple) or isinstance(e, ast.List):
            vals = [self.expr(x, env) for x in e.elts]
            if all(isinstance(v, (str, int)) for v in vals):
                return tuple(vals)
            raise Unsupported("non-constant tuple")
        if isinstance(e, ast.Name):
            if e.id in env:
                return env[e.id]
            if e.id in ("True", "False", "None"):
                return {"True": True, "False": False, "None": None}[e.id]
            raise Unsupported("name " + e.id)
        if isinstance(e, ast.Attribute):
            if isinstance(e.value, ast.Name) and e.value.id == "self":
                if e.attr in env["self"]:
                    return env["self"][e.attr]
                if hasattr(self.cls, e.attr) and isinstance(getattr(self.cls, e.attr), (bool, int, str)):
                    return getattr(self.cls, e.attr)
                raise Unsupported("self." + e.attr)
            raise Unsupported("attribute " + ast.unparse(e))
        if isinstance(e, ast.UnaryOp) and isinstance(e.op, ast.Not):
            b = self.tobool(self.expr(e.operand, env))
            return B(I(b.d, C(b.t)), b.d)
        if isinstance(e, ast.UnaryOp) and isinstance(e.op, ast.USub):
            v = self.expr(e.operand, env)
            if isinstance(v, int):
                return -v
            raise Unsupported("negation")
        if isinstance(e, ast.Call):
            return self.call(e, env)
        if isinstance(e, ast.BinOp) and isinstance(e.op, ast.Add):
            # constant folding only: "prefix" + "/" where both sides are known strings (or ints)
            a, b = self.expr(e.left, env), self.expr(e.right, env)
            if (isinstance(a, str) and isinstance(b, str)) or (isinstance(a, int) and isinstance(b, int) and not isinstance(a, bool) and not isinstance(b, bool)):
                return a + b
            raise Unsupported("non-constant + in " + ast.unparse(e)[:60])
        if isinstance(e, ast.ListComp):
            g = e.generators[0]
            it = self.expr(g.iter, env)
            if (isinstance(it, Lst) and not it.strip and len(e.generators) == 1 and not g.ifs and isinstance(g.target, ast.Name)
                    and isinstance(e.elt, ast.Call) and isinstance(e.elt.func, ast.Attribute) and e.elt.func.attr == "strip" and not e.elt.args
                    and isinstance(e.elt.func.value, ast.Name) and e.elt.func.value.id == g.target.id):
                return Lst(it.base, it.sep, True)
            raise Unsupported("list comprehension " + ast.unparse(e)[:60])
        if isinstance(e, ast.Subscript):
            v = self.expr(e.value, env)
            sl = e.slice
            if isinstance(sl, ast.Slice):
                if sl.step is not None:
                    raise Unsupported("slice step")
                a = 0 if sl.lower is None else self.expr(sl.lower, env)
                b = None if sl.upper is None else self.expr(sl.upper, env)
                if isinstance(v, T) and isinstance(a, int) and a >= 0 and b is None:
                    return v.then(("from", a))
                if isinstance(v, T) and isinstance(a, int) and a >= 0 and isinstance(b, int) and b >= 0:
                    return v.then(("slice", a, b))
                if isinstance(v, T) and a == 0 and isinstance(b, int) and b < 0:
                    return v.then(("upto_last", -b))
                raise Unsupported("slice " + ast.unparse(e))
            i = self.expr(sl, env)
            if isinstance(v, Lst) and isinstance(i, int):
                if i >= 0:
                    return v.item(i)
                if i == -1:
                    return v.last()
            if isinstance(v, T) and isinstance(i, int):
                if i >= 0:
                    return v.then(("index", i))
                return v.then(("negindex", -i))
            raise Unsupported("subscript " + ast.unparse(e))
        if isinstance(e, ast.Compare) and len(e.ops) == 1:
            return self.compare(self.expr(e.left, env), e.ops[0], self.expr(e.comparators[0], env))
        if isinstance(e, ast.Compare):
            # a < b < c  ==  a < b and b < c
            vals = [self.expr(e.left, env)] + [self.expr(c, env) for c in e.comparators]
            acc = None
            for i, op in enumerate(e.ops):
                b = self.tobool(self.compare(vals[i], op, vals[i + 1]))
                acc = b if acc is None else B(I(acc.t, b.t), I(acc.d, U(C(acc.t), b.d)))
            return acc
        if isinstance(e, ast.BoolOp):
            vals = [self.tobool(self.expr(v, env)) for v in e.values]
            acc = vals[0]
            for v in vals[1:]:
                if isinstance(e.op, ast.And):
                    acc = B(I(acc.t, v.t), I(acc.d, U(C(acc.t), v.d)))
                else:
                    acc = B(U(acc.t, I(v.t, v.d)), I(acc.d, U(acc.t, v.d)))
            return acc
        if isinstance(e, ast.IfExp):
            c = self.tobool(self.expr(e.test, env))
            a = self.tobool(self.expr(e.body, env))
            b = self.tobool(self.expr(e.orelse, env))
            return B(U(I(c.t, a.t), I(C(c.t), b.t)), I(c.d, U(I(c.t, a.d), I(C(c.t), b.d))))
        raise Unsupported("expression " + ast.unparse(e)[:60])

    def call(self, e, env):
        f = e.func
        if isinstance(f, ast.Attribute):
            if isinstance(f.value, ast.Name) and f.value.id == "self" and f.attr == "check_tls":
                return bool(self.tls)
            if f.attr in self.opaque_calls:
                return Opaque()
            if ast.unparse(f) in ("re.search", "re.match", "re.fullmatch") and len(e.args) == 2:
                pat = self.expr(e.args[0], env)
                subj = self.expr(e.args[1], env)
                if isinstance(pat, str) and isinstance(subj, T):
                    mode = f.attr
                    L = regex_lang(pat, "match" if mode in ("match", "fullmatch") else "search")
                    if mode == "fullmatch":
                        raise Unsupported("fullmatch")
                    return B(subj.pull(L), subj.defined())
                raise Unsupported("regex call with non-constant pattern")
            if ast.unparse(f).endswith("config.get") and self.config is not None and len(e.args) == 2:
                a, b = self.expr(e.args[0], env), self.expr(e.args[1], env)
                if isinstance(a, str) and isinstance(b, str):
                    return self.config.get(a, b)
            recv = self.expr(f.value, env)
            args = [self.expr(a, env) for a in e.args]
            if isinstance(recv, T):
                m = f.attr
                if m in ("strip", "lstrip", "rstrip") and not args:
                    return recv.then((m,))
                if m == "split" and len(args) == 1 and isinstance(args[0], str) and len(args[0]) == 1:
                    return Lst(recv, args[0], False)
                if m == "split" and not args:
                    return Lst(recv, None, False)
                if m == "startswith" and args and isinstance(args[0], str):
                    return B(recv.pull(CAT(lit(args[0]), ALL)), recv.defined())
                if m == "startswith" and args and isinstance(args[0], tuple):
                    return B(recv.pull(U(*[CAT(lit(a), ALL) for a in args[0]])), recv.defined())
                if m == "endswith" and args and isinstance(args[0], str):
                    return B(recv.pull(CAT(ALL, lit(args[0]))), recv.defined())
                if m == "endswith" and args and isinstance(args[0], tuple):
                    return B(recv.pull(U(*[CAT(ALL, lit(a)) for a in args[0]])), recv.defined())
                if m == "isdigit" and not args:
                    return B(recv.pull(DIGITS), recv.defined())  # exact under an ASCII guard only (checked by validation)
                if m == "isascii" and not args:
                    return B(recv.pull(ASCII), recv.defined())
                if m in ("find", "index", "count") and len(args) == 1 and isinstance(args[0], str):
                    return (m, recv, args[0])
                if m == "encode":
                    raise Unsupported("encode outside try")
                raise Unsupported("str method " + m)
            if isinstance(recv, str):
                try:
                    return getattr(recv, f.attr)(*args)
                except Exception:
                    raise Unsupported("constant method call")
            raise Unsupported("method call " + ast.unparse(f))
        if isinstance(f, ast.Name):
            if f.id == "len" and len(e.args) == 1:
                v = self.expr(e.args[0], env)
                if isinstance(v, (Lst, T)):
                    return ("len", v)
                if isinstance(v, (str, tuple)):
                    return len(v)
            if f.id == "all" and len(e.args) == 1:
                v = self.expr(e.args[0], env)
                if isinstance(v, Lst):
                    return B(v.all_nonempty(), v.base.defined())
            if f.id == "bool" and len(e.args) == 1:
                return self.tobool(self.expr(e.args[0], env))
        raise Unsupported("call " + ast.unparse(e)[:60])

    def compare(self, l, op, r):
        # len(list) <op> k / len(str) <op> k
        if isinstance(l, tuple) and l and l[0] == "len" and isinstance(r, int):
            v = l[1]
            if isinstance(v, Lst):
                d = v.base.defined()
                ge = lambda n: v.arity_ge(n)  # noqa: E731
                eq = lambda n: v.arity(n)  # noqa: E731
            else:
                d = v.defined()
                ge = lambda n: v.pull(CAT(POW(ANY, max(n, 0)), ALL))  # noqa: E731
                eq = lambda n: v.pull(POW(ANY, n)) if n >= 0 else EMPTY  # noqa: E731
            if isinstance(op, ast.Eq):
                return B(eq(r), d)
            if isinstance(op, ast.NotEq):
                return B(I(d, C(eq(r))), d)
            if isinstance(op, ast.Lt):
                return B(I(d, C(ge(r))), d)
            if isinstance(op, ast.LtE):
                return B(I(d, C(ge(r + 1))), d)
            if isinstance(op, ast.Gt):
                return B(ge(r + 1), d)
            if isinstance(op, ast.GtE):
                return B(ge(r), d)
        if isinstance(r, tuple) and r and r[0] == "len" and isinstance(l, int):
            flip = {ast.Lt: ast.Gt, ast.Gt: ast.Lt, ast.LtE: ast.GtE, ast.GtE: ast.LtE, ast.Eq: ast.Eq, ast.NotEq: ast.NotEq}
            return self.compare(r, flip[type(op)](), l)
        # x.find(c) == -1 etc.
        if isinstance(l, tuple) and l and l[0] in ("find", "count") and isinstance(r, int):
            _, t, c = l
            has = t.pull(CAT(ALL, lit(c), ALL))
            d = t.defined()
            hasnot = I(d, C(has))
            if l[0] == "find":
                table = {(ast.Eq, -1): hasnot, (ast.NotEq, -1): has, (ast.Gt, -1): has, (ast.GtE, 0): has, (ast.Lt, 0): hasnot, (ast.LtE, -1): hasnot}
            else:
                table = {(ast.Eq, 0): hasnot, (ast.NotEq, 0): has, (ast.Gt, 0): has, (ast.GtE, 1): has, (ast.Lt, 1): hasnot, (ast.LtE, 0): hasnot}
            key = (type(op), r)
            if key in table:
                return B(table[key], d)
            raise Unsupported("find/count comparison")
        if isinstance(l, T) and isinstance(r, str):
            if isinstance(op, ast.Eq):
                return B(l.pull(lit(r)), l.defined())
            if isinstance(op, ast.NotEq):
                return B(I(l.defined(), C(l.pull(lit(r)))), l.defined())
            if isinstance(op, ast.In):  # l in "const": l is a substring of the constant
                subs = {r[i:j] for i in range(len(r) + 1) for j in range(i, len(r) + 1)}
                return B(l.pull(U(*[lit(s) for s in sorted(subs)])), l.defined())
            if isinstance(op, ast.NotIn):
                subs = {r[i:j] for i in range(len(r) + 1) for j in range(i, len(r) + 1)}
                return B(I(l.defined(), C(l.pull(U(*[lit(s) for s in sorted(subs)])))), l.defined())
        if isinstance(l, str) and isinstance(r, T):
            if isinstance(op, ast.Eq):
                return self.compare(r, op, l)
            if isinstance(op, ast.NotEq):
                return self.compare(r, op, l)
            has = r.pull(CAT(ALL, lit(l), ALL))
            if isinstance(op, ast.In):
                return B(has, r.defined())
            if isinstance(op, ast.NotIn):
                return B(I(r.defined(), C(has)), r.defined())
        if isinstance(l, T) and isinstance(r, tuple) and all(isinstance(x, str) for x in r):
            m = l.pull(U(*[lit(x) for x in r])) if r else EMPTY
            if isinstance(op, ast.In):
                return B(m, l.defined())
            if isinstance(op, ast.NotIn):
                return B(I(l.defined(), C(m)), l.defined())
        if isinstance(l, (bool, int, str)) and isinstance(r, (bool, int, str)) and not isinstance(l, T):
            table = {ast.Eq: lambda a, b: a == b, ast.NotEq: lambda a, b: a != b, ast.Lt: lambda a, b: a < b, ast.Gt: lambda a, b: a > b,
                     ast.LtE: lambda a, b: a <= b, ast.GtE: lambda a, b: a >= b, ast.Is: lambda a, b: a is b, ast.IsNot: lambda a, b: a is not b,
                     ast.In: lambda a, b: a in b, ast.NotIn: lambda a, b: a not in b}
            try:
                return bool(table[type(op)](l, r))
            except Exception:
                raise Unsupported("constant comparison")
        if isinstance(l, B) and isinstance(r, bool):
            if isinstance(op, (ast.Eq, ast.Is)):
                return l if r else B(I(l.d, C(l.t)), l.d)
            if isinstance(op, (ast.NotEq, ast.IsNot)):
                return B(I(l.d, C(l.t)), l.d) if r else l
        if isinstance(r, B) and isinstance(l, bool):
            return self.compare(r, op, l)
        if (l is None or r is None) and isinstance(op, (ast.Is, ast.IsNot, ast.Eq, ast.NotEq)):
            other = r if l is None else l
            if isinstance(other, B):
                # e.g. `match is None`: a regex match object is None iff the search failed
                isnone = B(I(other.d, C(other.t)), other.d)
                return isnone if isinstance(op, (ast.Is, ast.Eq)) else other
            if isinstance(other, (T, Lst)):
                return isinstance(op, (ast.IsNot, ast.NotEq))
        raise Unsupported("comparison %s %s %s" % (type(l).__name__, type(op).__name__, type(r).__name__))


def _copyenv(env):
    return dict(env, self=dict(env["self"]))


def _replace(tree, old, new):
    class R(ast.NodeTransformer):
        def visit(self, node):
            if node is old:
                return new
            return self.generic_visit(node)

    import copy

    # copy the tree but keep identity lookups working: transform in a deep copy located by position
    path = _path_to(tree, old)
    t2 = copy.deepcopy(tree)
    if not path:
        return copy.deepcopy(new)
    parent = t2
    for (field, idx) in path[:-1]:
        parent = getattr(parent, field) if idx is None else getattr(parent, field)[idx]
    field, idx = path[-1]
    if idx is None:
        setattr(parent, field, copy.deepcopy(new))
    else:
        getattr(parent, field)[idx] = copy.deepcopy(new)
    return t2


def _path_to(tree, target):
    if tree is target:
        return []
    for field, value in ast.iter_fields(tree):
        if isinstance(value, ast.AST):
            p = _path_to(value, target)
            if p is not None:
                return [(field, None)] + p
        elif isinstance(value, list):
            for i, item in enumerate(value):
                if isinstance(item, ast.AST):
                    p = _path_to(item, target)
                    if p is not None:
                        return [(field, i)] + p
    return None


def stats():
    return dict(_QUERIES)
