#!/bin/sh
# Idempotent offline bootstrap of /verif/.venv (overlay on /venv, adds crosshair/z3/cvc5/jsonschema).
set -e
HERE="$(cd "$(dirname "$0")/.." && pwd)"
VENV="$HERE/.venv"
STAMP="$VENV/.vk-ok"
if [ ! -f "$STAMP" ]; then
  rm -rf "$VENV"
  /venv/bin/python -m venv "$VENV" >/dev/null
  SP="$VENV/lib/python3.12/site-packages"
  printf '/venv/lib/python3.12/site-packages\n/repo\n' > "$SP/vk-overlay.pth"
  PIP_NO_INDEX=1 "$VENV/bin/python" -m pip install -q --no-index --find-links /opt/veriftools/wheels \
      crosshair-tool z3-solver cvc5 jsonschema >/dev/null 2>"$VENV/pip.err" || { cat "$VENV/pip.err" >&2; exit 3; }
  touch "$STAMP"
fi
