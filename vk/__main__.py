"""python -m vk check Cxx --tier quick|thorough [--only OBID]
   python -m vk replay <replays/Cxx/file.json>
"""
import argparse
import json
import os
import sys

HERE = os.path.dirname(os.path.dirname(os.path.abspath(__file__)))
if HERE not in sys.path:
    sys.path.insert(0, HERE)


def _emit(d):
    print("VKRESULT " + json.dumps(d, default=repr))
    sys.stdout.flush()


def main(argv):
    if argv and argv[0] == "_replay":
        from vk import driver
        p = json.loads(argv[1])
        kwargs = eval(p["kwargs"], {"nan": float("nan"), "inf": float("inf")})
        _emit(driver.do_replay_inproc(p["body"], kwargs, p.get("twin", False)))
        return 0
    if argv and argv[0] == "_runfn":
        import importlib
        import traceback
        p = json.loads(argv[1])
        mod, fn = p["body"].split(":")
        try:
            r = getattr(importlib.import_module(mod), fn)(**p["kwargs"])
        except Exception as e:
            r = {"status": "inconclusive", "detail": "engine error: %s: %s | %s" % (type(e).__name__, e, traceback.format_exc()[-600:])}
        _emit(r)
        return 0
    ap = argparse.ArgumentParser(prog="vk")
    sub = ap.add_subparsers(dest="cmd", required=True)
    c = sub.add_parser("check")
    c.add_argument("prop")
    c.add_argument("--tier", default=os.environ.get("VERIF_TIER", "quick"), choices=["quick", "thorough"])
    c.add_argument("--only", default=None)
    r = sub.add_parser("replay")
    r.add_argument("path")
    a = ap.parse_args(argv)
    from vk import driver
    if a.cmd == "check":
        return driver.check_property(a.prop, a.tier, a.only)
    if a.cmd == "replay":
        with open(a.path) as f:
            blob = json.load(f)
        kwargs = eval(blob["kwargs"], {"nan": float("nan"), "inf": float("inf")})
        rep = driver.do_replay_inproc(blob["body"], kwargs, False)
        print(json.dumps(rep, indent=1))
        if rep["outcome"] in ("violation", "exception"):
            print("VIOLATION property=%s replay=%s" % (blob["property"], a.path))
            return 1
        return 0


if __name__ == "__main__":
    sys.exit(main(sys.argv[1:]))
