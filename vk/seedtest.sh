#!/bin/sh
export VK_NO_EVIDENCE=1
# usage: sh vk/seedtest.sh <property> [tier]   -- runs the property's check against every seeded change for it
PROP="$1"; TIER="${2:-quick}"; PAT="${3:-}"
HERE="$(cd "$(dirname "$0")/.." && pwd)"; cd "$HERE"
for d in seeded/$PROP-* seeded/own-$PROP-*; do
  [ -f "$HERE/$d/patch.diff" ] || continue
  if ! git -C /repo apply --check "$HERE/$d/patch.diff" 2>/dev/null; then echo "$(basename $d): PATCH DOES NOT APPLY"; continue; fi
  git -C /repo apply "$HERE/$d/patch.diff"
  OUT="$(sh vk/run.sh $PROP $TIER 2>&1)"; RC=$?
  git -C /repo apply -R "$HERE/$d/patch.diff"
  V="$(echo "$OUT" | grep -c '^VIOLATION')"
  echo "$(basename $d): rc=$RC violations=$V $(echo "$OUT" | grep -A1 '^VIOLATION' | grep 'sig=' | head -2 | sed 's/input=.*//' | tr '\n' ' ')"
done
git -C /repo status --short | grep -v '^??'
