#!/bin/sh
# usage: sh vk/with_patch.sh <patch.diff> <command...>   -- applies the patch to /repo, runs the command, reverts.
P="$1"; shift
git -C /repo apply "$P" || exit 9
"$@"; RC=$?
git -C /repo apply -R "$P"
git -C /repo status --short | grep -v '^??' && echo "WARNING: /repo not clean"
exit $RC
