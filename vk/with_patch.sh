#!/bin/sh
export VK_NO_EVIDENCE=1
# usage: sh vk/with_patch.sh [-R] <patch.diff> <command...>   -- applies the patch to /repo, runs the command, reverts.
REV=""
if [ "$1" = "-R" ]; then REV="-R"; shift; fi
P="$1"; shift
git -C /repo apply $REV "$P" || exit 9
"$@"; RC=$?
if [ -n "$REV" ]; then git -C /repo apply "$P"; else git -C /repo apply -R "$P"; fi
git -C /repo status --short | grep -v '^??' && echo "WARNING: /repo not clean"
exit $RC
