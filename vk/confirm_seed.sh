#!/bin/sh
# usage: sh vk/confirm_seed.sh <seed-src-dir> <seed-id> <property>
# Confirms a seeded change in a scratch worktree: demo passes on clean HEAD, suite passes with the
# patch, demo fails with the patch.  On success copies it to /verif/seeded/<seed-id>/ with meta.json.
SRC="$1"; ID="$2"; PROP="$3"
HERE="$(cd "$(dirname "$0")/.." && pwd)"
WT="/tmp/wt/confirm-$ID"
rm -rf "$WT"; git -C /repo worktree prune
git -C /repo worktree add --detach "$WT" HEAD -q || exit 2
cd "$WT"
cp "$SRC/demo.py" demo.py
/venv/bin/python demo.py >/tmp/wt/confirm-$ID.clean.log 2>&1; CLEAN=$?
git apply "$SRC/patch.diff"; APPLY=$?
SUITE="$(/venv/bin/python -m pytest -q -p no:cacheprovider --timeout=900 2>&1 | tail -1)"
/venv/bin/python demo.py >/tmp/wt/confirm-$ID.mut.log 2>&1; MUT=$?
cd /
git -C /repo worktree remove --force "$WT"
OK=0
case "$SUITE" in *"1 failed, 119 passed"*) ;; *) OK=1;; esac
[ "$CLEAN" = 0 ] || OK=1
[ "$APPLY" = 0 ] || OK=1
[ "$MUT" != 0 ] || OK=1
echo "$ID clean_demo_rc=$CLEAN apply_rc=$APPLY suite='$SUITE' mutant_demo_rc=$MUT => $([ $OK = 0 ] && echo CONFIRMED || echo REJECTED)"
if [ $OK = 0 ]; then
  mkdir -p "$HERE/seeded/$ID"
  cp "$SRC/patch.diff" "$SRC/demo.py" "$HERE/seeded/$ID/"
  [ -f "$SRC/notes.md" ] && cp "$SRC/notes.md" "$HERE/seeded/$ID/"
  HEADC="$(git -C /repo rev-parse --short HEAD)"
  python3 - "$HERE/seeded/$ID" "$ID" "$PROP" "$SUITE" "$MUT" "$HEADC" <<'PY'
import json, sys, os
d, sid, prop, suite, mut, head = sys.argv[1:]
notes = open(os.path.join(d, "notes.md")).read() if os.path.exists(os.path.join(d, "notes.md")) else ""
meta = {"id": sid, "breaks_property": prop, "base_commit": head,
        "needs_to_manifest": notes[:1500],
        "confirmed": {"ran": ["demo.py on clean HEAD in a scratch worktree -> exit 0",
                              "git apply patch.diff; /venv/bin/python -m pytest -q -p no:cacheprovider -> " + suite,
                              "demo.py with the patch -> exit " + mut]},
        "source": "independent sub-agent given only the property text and a scratch worktree"}
json.dump(meta, open(os.path.join(d, "meta.json"), "w"), indent=1)
PY
fi
exit $OK
