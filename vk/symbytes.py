"""Opaque 'encoded text': what str.encode(errors='surrogateescape') of a symbolic string returns
under the CrossHair plugin.  UTF-8 with surrogateescape is a bijection between str and bytes, so
keeping the text and decoding it back later is equivalent to encoding and comparing bytes."""


class SymBytes:
    def __init__(self, parts):
        self.parts = list(parts)  # str (symbolic or not) or bytes

    def decode(self, encoding="utf-8", errors="strict"):
        out = ""
        for p in self.parts:
            out = out + (p if isinstance(p, str) else p.decode("utf-8", "surrogateescape"))
        return out

    def __add__(self, other):
        if isinstance(other, SymBytes):
            return SymBytes(self.parts + other.parts)
        if isinstance(other, (bytes, bytearray)):
            return SymBytes(self.parts + [bytes(other)])
        return NotImplemented

    def __radd__(self, other):
        if isinstance(other, (bytes, bytearray)):
            return SymBytes([bytes(other)] + self.parts)
        return NotImplemented

    def __len__(self):
        n = 0
        for p in self.parts:
            n += len(p)
        return n


def text_of(chunk) -> str:
    if isinstance(chunk, SymBytes):
        return chunk.decode()
    if isinstance(chunk, (bytes, bytearray)):
        return bytes(chunk).decode("utf-8", "surrogateescape")
    return chunk.decode()
