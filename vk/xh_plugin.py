# CrossHair plugin: models of CPython/stdlib behaviour (not of pygopherd) + an engine bug guard.
# Plugin files are exec-ed with split globals/locals: everything lives inside functions.


def _install_fmt_and_escape():
    import html
    import re
    from crosshair import NoTracing
    from crosshair import core as _core

    orig_fmt = _core._PATCH_REGISTRATIONS.get(str.__mod__)
    spec = re.compile(r"%(%|s|d)")
    anyspec = re.compile(r"%(.)")

    def _fmt(self, other):
        if not isinstance(self, str):
            raise TypeError
        with NoTracing():
            simple = type(self) is str and all(m.group(1) in "%sd" for m in anyspec.finditer(self))
        if not simple:
            # anything but %s/%d/%%: realize (as CrossHair itself does) and format natively
            fs = _core.realize(self)
            fo = _core.deep_realize(other)
            with NoTracing():
                return str.__mod__(fs, fo)
        args = other if isinstance(other, tuple) else (other,)
        out = ""
        pos = 0
        i = 0
        for m in spec.finditer(self):
            out = out + self[pos:m.start()]
            pos = m.end()
            if m.group(1) == "%":
                out = out + "%"
            else:
                if i >= len(args):
                    raise TypeError("not enough arguments for format string")
                a = args[i]
                i += 1
                out = out + (a if isinstance(a, str) else str(a))
        if i != len(args):
            raise TypeError("not all arguments converted during string formatting")
        return out + self[pos:]

    if orig_fmt is not None:
        _core._PATCH_REGISTRATIONS[str.__mod__] = _fmt

    M = {"&": "&amp;", "<": "&lt;", ">": "&gt;"}
    MQ = dict(M)
    MQ['"'] = "&quot;"
    MQ["'"] = "&#x27;"

    def _escape(s, quote=True):
        m = MQ if quote else M
        out = ""
        for c in s:
            out = out + (m[c] if c in m else c)
        return out

    _core._PATCH_REGISTRATIONS[html.escape] = _escape


_install_fmt_and_escape()


def _fix_ch_bug():
    from crosshair.libimpl import builtinslib as bl

    orig = bl.SymbolicBoundedIntTuple._create_up_to

    def fixed(self, size):
        if size <= len(self._created_vars):
            return
        return orig(self, size)

    bl.SymbolicBoundedIntTuple._create_up_to = fixed


_fix_ch_bug()


def _fix_concat_eq():
    # Engine bug: SequenceConcatenation.__eq__ compares `second == other[firstlen:]`, which is False
    # when `second` is an empty list and the other side an empty symbolic tuple -- e.g.
    # (s + "\n")[:-1] == s came out False.  Compare element-wise instead.
    from crosshair import simplestructs as ss

    def eq(self, other):
        if not hasattr(other, "__len__"):
            return False
        if self.__len__() != other.__len__():
            return False
        i = 0
        for a in self:
            if a != other[i]:
                return False
            i += 1
        return True

    ss.SequenceConcatenation.__eq__ = eq


_fix_concat_eq()


def _opaque_encode():
    # str.encode(errors="surrogateescape"/"backslashreplace") of a *symbolic* string returns an opaque
    # SymBytes that remembers the text (CrossHair would realize the string otherwise).
    import sys

    from crosshair.libimpl import builtinslib as bl

    sys.path.insert(0, __import__("os").environ.get("VK_HOME", "/verif"))
    from vk.symbytes import SymBytes

    orig = bl.AnySymbolicStr.encode

    def encode(self, encoding="utf-8", errors="strict"):
        enc = encoding.lower().replace("-", "").replace("_", "") if isinstance(encoding, str) else ""
        if enc == "utf8" and errors in ("surrogateescape", "backslashreplace"):
            return SymBytes([self])
        if enc in ("utf8", "ascii", "latin1", "iso88591") and errors == "strict":
            # CrossHair's codec model lets lone surrogates through a strict encode; CPython raises
            i = 0
            for ch in self:
                cp = ord(ch)
                if 0xD800 <= cp <= 0xDFFF:
                    raise UnicodeEncodeError(encoding, "?", i, i + 1, "surrogates not allowed")
                i += 1
        return orig(self, encoding, errors)

    bl.AnySymbolicStr.encode = encode


_opaque_encode()
