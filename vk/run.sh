#!/bin/sh
# usage: sh vk/run.sh <property-id> <quick|thorough>
HERE="$(cd "$(dirname "$0")/.." && pwd)"
sh "$HERE/vk/bootstrap.sh" || exit 3
cd "$HERE"
export PYGOPHERD_VERIF=1
export PYTHONDONTWRITEBYTECODE=1
exec "$HERE/.venv/bin/python" -m vk check "$1" --tier "${2:-quick}"
