#!/bin/sh
# usage: sh vk/run.sh <property-id> <quick|thorough>
HERE="$(cd "$(dirname "$0")/.." && pwd)"
sh "$HERE/vk/bootstrap.sh" || exit 3
cd "$HERE"
export PYGOPHERD_VERIF=1
export PYTHONDONTWRITEBYTECODE=1
P="$1"; T="${2:-quick}"; shift; [ $# -gt 0 ] && shift
exec "$HERE/.venv/bin/python" -m vk check "$P" --tier "$T" "$@"
