"""Regenerates MANIFEST.json from the harness modules present (python -m vk.mkmanifest)."""
import importlib
import json
import os
import sys

HERE = os.path.dirname(os.path.dirname(os.path.abspath(__file__)))
sys.path.insert(0, HERE)

ALL = ["C%02d" % i for i in range(1, 21)]
NA = {
    "C14": "quantifies over thread/process interleavings of a live socket server; CrossHair executes one thread and no SMT encoding of CPython scheduling, fork, TCP or socketserver's reaping loop is within reach (DESIGN.md section 4). Sequential shadows are decided under C03, C11, C20.",
}


def main():
    checks = []
    na = []
    for pid in ALL:
        try:
            mod = importlib.import_module("harness." + pid)
        except ModuleNotFoundError:
            na.append({"property_id": pid, "reason": NA.get(pid, "not yet implemented in this revision of /verif (planned: DESIGN.md section 3)")})
            continue
        m = mod.META
        checks.append({
            "property_id": pid,
            "quick_cmd": "sh vk/run.sh %s quick" % pid,
            "thorough_cmd": "sh vk/run.sh %s thorough" % pid,
            "evidence_file": "evidence/%s.json" % pid,
            "replay_cmd_template": ".venv/bin/python -m vk replay {path}",
            "engine": "vk",
            "level_claimed": {"category": m.get("level", "other"), "text": m["claim"], "design_ref": "DESIGN.md section 3, " + pid},
            "level_note": m["trusted"],
            "technique": m["technique"],
        })
    man = {
        "version": 1,
        "setup_cmd": "sh vk/bootstrap.sh",
        "hooks": {
            "guard": "PYGOPHERD_VERIF",
            "enable": "no source hooks: every stub is installed by the harness at run time by assigning module attributes; checks export PYGOPHERD_VERIF=1 for uniformity",
            "baseline_off_cmd": "cd /repo && /venv/bin/python -m pytest -ra -q -p no:cacheprovider --timeout=900 --continue-on-collection-errors",
            "source_commits": [],
            "add_only": True,
        },
        "engines": [
            {"name": "vk", "path": "vk/", "serves_properties": [c["property_id"] for c in checks],
             "kind_free_text": "solver-based checking of the real code: CrossHair 0.0.110 (z3) symbolic execution of pygopherd functions through generated contract wrappers, "
             "an AST->z3-regex translator for string predicates, AST->SMT-LIB kernels (z3 + cvc5); replay gate against the real code; reachability twins"}
        ],
        "checks": checks,
        "not_applicable": na,
        "notes": "Bounded claims only; bounds are recorded per obligation in the evidence files. Exit 0 = no reproducing violation outside known_findings.json; inconclusive obligations are listed, never counted as holding.",
    }
    with open(os.path.join(HERE, "MANIFEST.json"), "w") as f:
        json.dump(man, f, indent=1)
    import jsonschema
    jsonschema.validate(man, json.load(open("/root/.vp/MANIFEST.schema.json")))
    print("MANIFEST.json: %d checks, %d not applicable" % (len(checks), len(na)))


if __name__ == "__main__":
    main()
