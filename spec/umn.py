"""Reference reader for UMN link files, .cap files and their merge semantics, written from
doc/pygopherd.txt (sections LINKS, OVERRIDING DEFAULTS, HIDING AN ENTRY) and the property text.
Independent of pygopherd's implementation; used as the oracle for C08."""
from __future__ import annotations


FIELDS = ("type", "name", "selector", "host", "port", "num")


def normpath(path):
    """POSIX path normalisation (pure Python so that it can run on symbolic strings)."""
    if path == "":
        return "."
    lead = 0
    if path.startswith("/"):
        lead = 2 if (path.startswith("//") and not path.startswith("///")) else 1
    out = []
    for comp in path.split("/"):
        if comp in ("", "."):
            continue
        if comp != ".." or (not lead and not out) or (out and out[-1] == ".."):
            out.append(comp)
        elif out:
            out.pop()
    res = "/" * lead + "/".join(out)
    return res or "."


class Link:
    def __init__(self):
        self.type = None
        self.name = None
        self.selector = None
        self.host = None
        self.port = None
        self.num = None
        self.abstract = None
        self.merge = False  # Path=./x or ~/x: overrides the entry of file x

    def tup(self):
        return (self.type, self.name, self.selector, self.host, self.port, self.num, self.abstract, self.merge)


def parse_block(lines, base, cap_selector=None):
    """One block of `Key=value` lines (already without the terminating blank line).  `base` is the
    directory selector without trailing slash ('' for the root).  Returns a Link or None when
    the block names no Path (and is not a .cap file)."""
    l = Link()
    have_path = cap_selector is not None
    if cap_selector is not None:
        l.selector = cap_selector
    relative = False
    i = 0
    while i < len(lines):
        line = lines[i].strip()
        i += 1
        if line.startswith("Type="):
            l.type = line[5:6]
        elif line.startswith("Name="):
            l.name = line[5:]
        elif line.startswith("Path="):
            p = line[5:]
            if p.endswith("/"):
                p = p[:-1]
            if line[5:7] in ("./", "~/"):
                l.selector = base + "/" + p[2:]
                l.merge = True
            elif p and not p.startswith("/") and not p.startswith("URL:"):
                l.selector = p
                relative = True
            else:
                l.selector = p
            have_path = True
        elif line.startswith("Host="):
            if line[5:] != "+":
                l.host = line[5:]
        elif line.startswith("Port="):
            if line[5:] != "+":
                l.port = int(line[5:])
        elif line.startswith("Numb="):
            try:
                l.num = int(line[5:])
            except ValueError:
                pass
        elif line.startswith("Abstract="):
            text = ""
            cur = line[9:]
            while cur.endswith("\\"):
                text += cur[:-1] + "\n"
                cur = lines[i].strip() if i < len(lines) else ""
                i += 1
            text += cur
            if text:
                l.abstract = text
    if not have_path:
        return None
    if relative and l.host is None and l.port is None:
        l.selector = normpath(base + "/" + l.selector)
    return l


def merge(entry: dict, link: Link) -> dict:
    """Override exactly the fields the link sets (entry: dict with FIELDS + 'abstract')."""
    out = dict(entry)
    for f in FIELDS:
        v = getattr(link, f)
        if v is not None:
            out[f] = v
    if link.abstract is not None:
        out["abstract"] = link.abstract
    return out


def sort_key(e: dict):
    n = e.get("num") or 0
    cls = 0 if n > 0 else (1 if n == 0 else 2)
    return (cls, n, e["name"])
