"""Well-formedness validators for one complete response, per protocol (written from the
protocol specifications: RFC 1436, Gopher+ spec, HTTP/1.0, Gemini and Spartan specs)."""
from __future__ import annotations

import re

GOPHERP_HDR = re.compile(rb"^(\+(-1|-2|\d+)|--(1|2)|--\d+)\r\n")
HTTP_STATUS = re.compile(rb"^HTTP/1\.0 (\d{3}) [^\r\n]*\r\n")
HTTP_HEADER = re.compile(rb"^[A-Za-z][A-Za-z0-9-]*: [^\r\n]*\r\n")
GEMINI_STATUS = re.compile(rb"^(\d\d) ([^\r\n]*)\r\n")
SPARTAN_STATUS = re.compile(rb"^(\d) ([^\r\n]*)\r\n")


def gopher(out: bytes):
    """menu lines / one error line / raw document -- anything non-empty is a syntactically valid
    RFC 1436 body, so the validator asks for: non-empty, and if it is an error it is ONE `3` line."""
    if not out:
        return "empty response"
    if out.startswith(b"3"):
        line, sep, rest = out.partition(b"\r\n")
        if not sep:
            return "error line not terminated"
        if rest:
            return "bytes after the error line"
        if line.count(b"\t") < 3:
            return "error line has fewer than 4 fields"
    return None


def gopherplus(out: bytes):
    m = GOPHERP_HDR.match(out)
    if not m:
        return "no Gopher+ status line: %r" % out[:40]
    rest = out[m.end():]
    if out.startswith(b"--"):
        # error: code line, then admin + message lines
        if not rest.endswith(b"\r\n"):
            return "error block not terminated"
        if GOPHERP_HDR.match(rest):
            return "second status line"
    return None


def http(out: bytes, head=False):
    m = HTTP_STATUS.match(out)
    if not m:
        return "no HTTP/1.0 status line: %r" % out[:40]
    pos = m.end()
    while True:
        if out.startswith(b"\r\n", pos):
            pos += 2
            break
        h = HTTP_HEADER.match(out[pos:])
        if not h:
            return "malformed header block at %r" % out[pos:pos + 40]
        pos += h.end()
    if b"HTTP/1.0 " in out[pos:pos + 9]:
        return "second status line"
    if head and m.group(1) == b"200" and out[pos:]:
        return "HEAD response carries a body"
    return None


def gemini(out: bytes):
    m = GEMINI_STATUS.match(out)
    if not m:
        return "no Gemini status line: %r" % out[:40]
    code = m.group(1)
    if not code.startswith(b"2") and out[m.end():]:
        return "body after non-success status %s" % code.decode()
    if code[0:1] not in b"123456":
        return "invalid status %s" % code.decode()
    return None


def spartan(out: bytes):
    m = SPARTAN_STATUS.match(out)
    if not m:
        return "no Spartan status line: %r" % out[:40]
    code = m.group(1)
    if code not in (b"2", b"3", b"4", b"5"):
        return "invalid status %s" % code.decode()
    if code != b"2" and out[m.end():]:
        return "body after non-success status"
    return None


def validate(kind: str, out: bytes, head=False):
    if kind in ("gopher",):
        return gopher(out)
    if kind in ("gopherplus",):
        return gopherplus(out)
    if kind in ("http", "wap"):
        return http(out, head)
    if kind == "gemini":
        return gemini(out)
    if kind == "spartan":
        return spartan(out)
    raise ValueError(kind)
