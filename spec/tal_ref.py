"""Reference evaluator for TAL/TALES (TAL 1.4 order of operations, TALES path semantics), written
from the specifications -- independent of simpletal.  Templates are given as a small tree of El
objects (which also serialise themselves to template source for the real compiler)."""
from __future__ import annotations

DEFAULT = object()  # TALES `default`
MISSING = object()


class PathNotFound(Exception):
    pass


def esc_text(s):
    return s.replace("&", "&amp;").replace("<", "&lt;").replace(">", "&gt;")


def esc_attr(s):
    return esc_text(s).replace('"', "&quot;").replace("'", "&#x27;")


def tostr(v):
    return v if isinstance(v, str) else str(v)


class El:
    def __init__(self, tag, attrs=(), children=(), define=None, condition=None, repeat=None, content=None, replace=None, attributes=None, omit=None, metal=None):
        self.metal = dict(metal or {})  # METAL: {'define-macro': n} | {'use-macro': 'macros/n'} | {'define-slot': n} | {'fill-slot': n}
        self.tag, self.attrs, self.children = tag, list(attrs), list(children)
        self.define = define  # list of (scope, name, expr)
        self.condition = condition  # expr
        self.repeat = repeat  # (var, expr)
        self.content = content  # (structure: bool, expr)
        self.replace = replace  # (structure: bool, expr)
        self.attributes = attributes  # list of (name, expr)
        self.omit = omit  # expr ('' = always)

    def source(self):
        a = "".join(' %s="%s"' % (k, v) for k, v in self.attrs)
        for k, v in self.metal.items():
            a += ' metal:%s="%s"' % (k, v)
        if self.define:
            a += ' tal:define="%s"' % "; ".join(("%s %s %s" % (s, n, e)).strip() for s, n, e in self.define)
        if self.condition is not None:
            a += ' tal:condition="%s"' % self.condition
        if self.repeat is not None:
            a += ' tal:repeat="%s %s"' % self.repeat
        if self.content is not None:
            a += ' tal:content="%s%s"' % ("text " if self.content[0] == "text" else "structure " if self.content[0] else "", self.content[1])
        if self.replace is not None:
            a += ' tal:replace="%s%s"' % ("text " if self.replace[0] == "text" else "structure " if self.replace[0] else "", self.replace[1])
        if self.attributes:
            a += ' tal:attributes="%s"' % "; ".join("%s %s" % (n, e) for n, e in self.attributes)
        if self.omit is not None:
            a += ' tal:omit-tag="%s"' % self.omit
        inner = "".join(c if isinstance(c, str) else c.source() for c in self.children)
        return "<%s%s>%s</%s>" % (self.tag, a, inner, self.tag)


class Ctx:
    """globals + a stack of local scopes; `repeat` holds the repeat variables"""

    def __init__(self, globs):
        self.globals = dict(globs)
        self.globals.setdefault("nothing", None)
        self.globals.setdefault("default", DEFAULT)
        self.locals = [{}]
        self.repeat = {}

    def lookup(self, name):
        for sc in reversed(self.locals):
            if name in sc:
                return sc[name]
        if name == "repeat":
            return self.repeat
        if name in self.globals:
            return self.globals[name]
        raise PathNotFound(name)


def call_if_callable(v):
    return v() if callable(v) else v


def traverse(ctx, path, attrs, can_call=True):
    parts = path.split("/")
    if parts[0] == "attrs":
        val = attrs
    else:
        val = ctx.lookup(parts[0])
    for step in parts[1:]:
        val = call_if_callable(val)
        if isinstance(val, RepeatVar):
            m = val.map()
            if step not in m:
                raise PathNotFound(path)
            val = m[step]
            continue
        if not isinstance(val, (dict, list, tuple, str)) and hasattr(val, step):
            val = getattr(val, step)
            continue
        try:
            if isinstance(val, dict):
                val = val[step]
            else:
                val = val[int(step)]
        except Exception:
            raise PathNotFound(path)
    return call_if_callable(val) if can_call else val


def truth(v):
    if v is None:
        return False
    if v is DEFAULT:
        return True
    try:
        return len(v) > 0
    except TypeError:
        return bool(v)


def evaluate(ctx, expr, attrs=None):
    """TALES; raises PathNotFound"""
    expr = expr.strip()
    if expr.startswith("path:"):
        return eval_path(ctx, expr[5:].lstrip(), attrs)
    if expr.startswith("exists:"):
        alts = expr[7:].lstrip().split("|")
        try:
            traverse(ctx, alts[0].strip(), attrs, can_call=False)
            return 1
        except PathNotFound:
            pass
        for a in alts[1:]:
            try:
                if evaluate(ctx, a.strip(), attrs):
                    return 1
            except PathNotFound:
                pass
        return 0
    if expr.startswith("nocall:"):
        alts = expr[7:].lstrip().split("|")
        try:
            return traverse(ctx, alts[0].strip(), attrs, can_call=False)
        except PathNotFound:
            pass
        for a in alts[1:]:
            try:
                return evaluate(ctx, a.strip(), attrs)
            except PathNotFound:
                pass
        raise PathNotFound(expr)
    if expr.startswith("not:"):
        try:
            v = evaluate(ctx, expr[4:].lstrip(), attrs)
        except PathNotFound:
            return 1
        return 0 if truth(v) else 1
    if expr.startswith("string:"):
        return eval_string(ctx, expr[7:].lstrip(), attrs)
    return eval_path(ctx, expr, attrs)


def eval_path(ctx, expr, attrs):
    alts = expr.split("|")
    if len(alts) == 1:
        return traverse(ctx, alts[0].strip(), attrs)
    for a in alts:
        try:
            return evaluate(ctx, a.strip(), attrs)
        except PathNotFound:
            pass
    raise PathNotFound(expr)


def eval_string(ctx, s, attrs):
    out = ""
    i = 0
    while i < len(s):
        c = s[i]
        if c != "$":
            out += c
            i += 1
            continue
        if i + 1 >= len(s):
            break
        n = s[i + 1]
        if n == "$":
            out += "$"
            i += 2
        elif n == "{":
            j = s.find("}", i + 1)
            if j < 0:
                i += 1
                continue
            try:
                v = evaluate(ctx, s[i + 2:j], attrs)
            except PathNotFound:
                v = ""
            if v is not None:
                out += tostr(v)
            i = j + 1
        else:
            j = s.find(" ", i + 1)
            if j < 0:
                j = len(s)
            try:
                v = traverse(ctx, s[i + 1:j], attrs)
            except PathNotFound:
                v = ""
            if v is not None:
                out += tostr(v)
            i = j
    return out


def top(ctx, expr, attrs):
    """expression as used by a TAL command: a missing path is `nothing`"""
    try:
        return evaluate(ctx, expr, attrs)
    except PathNotFound:
        return None


class RepeatVar:
    def __init__(self, seq):
        self.seq = seq
        self.pos = 0

    def map(self):
        i, n = self.pos, len(self.seq)
        return {"index": i, "number": i + 1, "even": 1 if i % 2 == 0 else 0, "odd": 1 if i % 2 == 1 else 0, "start": 1 if i == 0 else 0,
                "end": 1 if i == n - 1 else 0, "length": n, "letter": letter(i), "Letter": letter(i).upper(), "roman": roman(i + 1), "Roman": roman(i + 1).upper()}


def letter(index, base=ord("a"), radix=26):
    s = ""
    while True:
        index, off = divmod(index, radix)
        s = chr(base + off) + s
        if not index:
            return s


def roman(num):
    if num > 4000:
        return " "
    out = ""
    for r, n in (("m", 1000), ("cm", 900), ("d", 500), ("cd", 400), ("c", 100), ("xc", 90), ("l", 50), ("xl", 40), ("x", 10), ("ix", 9), ("v", 5), ("iv", 4), ("i", 1)):
        while num >= n:
            out += r
            num -= n
    return out


def walk(node):
    if isinstance(node, str):
        return
    yield node
    for c in node.children:
        yield from walk(c)


def own_fills(use):
    """the fill-slot elements of a use-macro element: those inside it that are not inside a nested use-macro element"""
    for c in use.children:
        if isinstance(c, str):
            continue
        if "fill-slot" in c.metal:
            yield c
        if "use-macro" not in c.metal:
            yield from own_fills(c)


def macros_of(root):
    """METAL: the macros a template defines, by name"""
    return {el.metal["define-macro"]: el for el in walk(root) if "define-macro" in el.metal}


def render(node, ctx, slots=None, macros=None):
    """METAL (macro expansion happens first): an element with use-macro is replaced by the macro's
    element, in which every define-slot element whose name the use-macro element fills is replaced by
    the filling element; then TAL runs on the result in the current context."""
    if isinstance(node, str):
        return node
    el = node
    if "use-macro" in el.metal:
        name = el.metal["use-macro"].split("/")[-1]
        fills = {c.metal["fill-slot"]: c for c in own_fills(el)}
        return render(macros[name], ctx, fills, macros)
    if "define-slot" in el.metal and slots and el.metal["define-slot"] in slots:
        return render(slots[el.metal["define-slot"]], ctx, None, macros)
    return render_tal(el, ctx, slots, macros)


def render_tal(el, ctx, slots=None, macros=None):
    attrs_orig = dict(el.attrs)
    pushed = False
    out = ""
    # 1. define
    if el.define:
        for scope, name, expr in el.define:
            v = top(ctx, expr, attrs_orig)
            if scope == "global":
                ctx.globals[name] = v
            else:
                if not pushed:
                    ctx.locals.append({})
                    pushed = True
                ctx.locals[-1][name] = v
    try:
        # 2. condition
        if el.condition is not None and not truth(top(ctx, el.condition, attrs_orig)):
            return ""
        # 3. repeat
        if el.repeat is not None:
            var, expr = el.repeat
            seq = top(ctx, expr, attrs_orig)
            if seq is DEFAULT:
                return out + render_once(el, ctx, attrs_orig, slots, macros)
            try:
                n = len(seq)
            except TypeError:
                return ""
            if n == 0:
                return ""
            rv = RepeatVar(seq)
            saved = ctx.repeat
            ctx.repeat = dict(saved)
            ctx.repeat[var] = rv
            ctx.locals.append({})
            try:
                for i in range(n):
                    rv.pos = i
                    ctx.locals[-1][var] = seq[i]
                    out += render_once(el, ctx, attrs_orig, slots, macros)
            finally:
                ctx.locals.pop()
                ctx.repeat = saved
            return out
        return render_once(el, ctx, attrs_orig, slots, macros)
    finally:
        if pushed:
            ctx.locals.pop()


def render_once(el, ctx, attrs_orig, slots=None, macros=None):
    """content/replace, attributes, omit-tag for one rendering of the element"""
    tags = True
    body = None  # None: original children
    if el.replace is not None:
        structure, expr = el.replace
        v = top(ctx, expr, attrs_orig)
        if v is None:
            return ""
        if v is not DEFAULT:
            tags = False
            body = tostr(v) if structure is True else esc_text(tostr(v))  # the keyword `text` is the default spelled out
    elif el.content is not None:
        structure, expr = el.content
        v = top(ctx, expr, attrs_orig)
        if v is None:
            body = ""
        elif v is not DEFAULT:
            body = tostr(v) if structure is True else esc_text(tostr(v))  # the keyword `text` is the default spelled out
    cur = list(el.attrs)
    if el.attributes:
        remove, new = set(), []
        for name, expr in el.attributes:
            v = top(ctx, expr, attrs_orig)
            if v is None:
                remove.add(name)
            elif v is not DEFAULT:
                remove.add(name)
                new.append((name, tostr(v)))
        cur = new + [(k, v) for k, v in cur if k not in remove]
    if el.omit is not None:
        if el.omit.strip() == "" or truth_omit(top(ctx, el.omit, attrs_orig)):
            tags = False
    if body is None:
        body = "".join(render(c, ctx, slots, macros) for c in el.children)
    if not tags:
        return body
    return "<" + el.tag + "".join(' %s="%s"' % (k, esc_attr(v)) for k, v in cur) + ">" + body + "</" + el.tag + ">"


def truth_omit(v):
    return v is not None and bool(v)
