"""Reference reader for gophermap files, written from doc/pygopherd.txt (GOPHERMAP.BUCKGOPHERMAPHANDLER)."""
from __future__ import annotations


def parse_line(line: str, base: str):
    """base: selector of the directory the gophermap file is in, '' for the root.
    Returns (type, name, selector, host, port) -- host/port None = this server."""
    if "\t" not in line:
        return ("i", line.strip(), None, None, None)
    f = [x.strip() for x in line.split("\t")]
    typ = f[0][0:1]
    name = f[0][1:]
    sel = f[1] if len(f) > 1 and f[1] != "" else name
    if not (sel.startswith("/") or sel.startswith("URL:")):
        sel = base + "/" + sel
    host = f[2] if len(f) > 2 and f[2] != "" else None
    port = int(f[3]) if len(f) > 3 and f[3] != "" else None
    return (typ, name, sel, host, port)
