"""Reference request shapes of the six protocols, written from the protocol documentation and the
property text -- NOT from the implementation.  Each shape exists twice: as a z3 regular
expression over the raw first line (for the solver) and as a plain Python predicate (for
replays and for validating the regex form)."""
from __future__ import annotations

import z3

from vk.pyre import ALL, ANY, ASCII, BOUNDED, CAT, EMPTY, EPS, NWS, OPT, POW, WS, C, I, U, lit, notc

TAB, SP = "\t", " "


def field(c):
    return z3.Star(notc(c))


def stripped(X, F):
    """a field (language F) whose strip() lies in X"""
    return I(F, CAT(z3.Star(WS), I(X, BOUNDED), z3.Star(WS)))


# ---- Gopher+ : 2 or 3 tab fields; the last one stripped is "!" or starts with "+" or "$"
G = U(CAT(lit("+"), ALL), lit("!"), CAT(lit("$"), ALL))
Ft = field(TAB)
S_GOPHERPLUS = U(CAT(Ft, lit(TAB), stripped(G, Ft)), CAT(Ft, lit(TAB), Ft, lit(TAB), stripped(G, Ft)))

# ---- HTTP: exactly three space fields; first stripped in {GET, HEAD}; third stripped starts with HTTP/
Fs = field(SP)
S_HTTP = CAT(stripped(U(lit("GET"), lit("HEAD")), Fs), lit(SP), Fs, lit(SP), stripped(CAT(lit("HTTP/"), ALL), Fs))


def s_wap_prefix(waptop):
    # "waptop is the URL to access with WAP devices": the path IS waptop, or continues below it
    # (waptop/..., waptop?query) -- /wapiti.txt is not under /wap
    under = U(lit(waptop), CAT(lit(waptop), U(lit("/"), lit("?")), ALL))
    return I(S_HTTP, CAT(Fs, lit(SP), stripped(under, Fs), lit(SP), Fs))


# ---- Gemini
S_GEMINI = CAT(lit("gemini://"), ALL)

# ---- Spartan ("host SP path-absolute SP content-length"): ASCII; stripped line = three non-empty
# space fields, the second starting with a slash, the third all digits
N = z3.Plus(notc(SP))
S_SPARTAN = I(ASCII, CAT(z3.Star(WS), I(BOUNDED, CAT(N, lit(SP), I(N, CAT(lit("/"), ALL)), lit(SP), I(N, z3.Plus(z3.Range("0", "9"))))), z3.Star(WS)))

S_GOPHER = ALL


def shape(kind, waptop="/wap"):
    return {"gopher": S_GOPHER, "gopherplus": S_GOPHERPLUS, "http": S_HTTP, "wap": s_wap_prefix(waptop), "gemini": S_GEMINI, "spartan": S_SPARTAN}[kind]


# ---- the same shapes as plain predicates


def p_gopherplus(req: str) -> bool:
    f = [x.strip() for x in req.split(TAB)]
    if len(f) not in (2, 3):
        return False
    last = f[-1]
    return last == "!" or last.startswith("+") or last.startswith("$")


def p_http(req: str) -> bool:
    f = [x.strip() for x in req.split(SP)]
    return len(f) == 3 and f[0] in ("GET", "HEAD") and f[2].startswith("HTTP/")


def p_wap_prefix(req: str, waptop="/wap") -> bool:
    if not p_http(req):
        return False
    path = [x.strip() for x in req.split(SP)][1]
    return path == waptop or path.startswith(waptop + "/") or path.startswith(waptop + "?")


def p_gemini(req: str) -> bool:
    return req.startswith("gemini://")


def p_spartan(req: str) -> bool:
    if any(ord(c) > 127 for c in req):
        return False
    f = req.strip().split(SP)
    return len(f) == 3 and all(len(x) > 0 for x in f) and f[1].startswith("/") and all(c in "0123456789" for c in f[2])


def pred(kind, waptop="/wap"):
    return {"gopher": lambda r: True, "gopherplus": p_gopherplus, "http": p_http, "wap": lambda r: p_wap_prefix(r, waptop),
            "gemini": p_gemini, "spartan": p_spartan}[kind]


# which documented shape and TLS-ness each shipped protocol class stands for
CLASSES = {
    "pygopherd.protocols.rfc1436.GopherProtocol": ("gopher", False),
    "pygopherd.protocols.rfc1436.SecureGopherProtocol": ("gopher", True),
    "pygopherd.protocols.gopherp.GopherPlusProtocol": ("gopherplus", False),
    "pygopherd.protocols.gopherp.SecureGopherPlusProtocol": ("gopherplus", True),
    "pygopherd.protocols.gopherp.URLGopherPlus": ("gopherplus", False),
    "pygopherd.protocols.enhanced.EnhancedGopherProtocol": ("gopher", False),
    "pygopherd.protocols.http.HTTPProtocol": ("http", False),
    "pygopherd.protocols.http.HTTPSProtocol": ("http", True),
    "pygopherd.protocols.wap.WAPProtocol": ("wap", False),
    "pygopherd.protocols.gemini.GeminiProtocol": ("gemini", True),
    "pygopherd.protocols.spartan.SpartanProtocol": ("spartan", False),
}

# selector security filter (C01): the six forbidden substrings, and no trailing "." path component
# (the "./" rule at the end of the selector; documented in isrequestsecure since fix 400a3e8)
FORBIDDEN = ["./", "..", "//", ".\\", "\\\\", "\0"]
S_SECURE = C(U(*([CAT(ALL, lit(f), ALL) for f in FORBIDDEN] + [CAT(ALL, lit("/."))])))


def p_secure(sel: str) -> bool:
    return not any(f in sel for f in FORBIDDEN) and not sel.endswith("/.")


# URL-redirect selectors (C01/C13): ^(/|)URL:.+:// without NUL, LF, TAB, CR, double quote
DOTNL = I(ANY, C(lit("\n")))
S_URLSEL = I(CAT(OPT(lit("/")), lit("URL:"), z3.Plus(DOTNL), lit("://"), ALL),
             C(U(*[CAT(ALL, lit(c), ALL) for c in ["\0", "\n", "\t", "\r", '"']])))


def p_urlsel(sel: str) -> bool:
    if any(c in sel for c in "\0\n\t\r\""):
        return False
    s = sel[1:] if sel.startswith("/") else sel
    if not s.startswith("URL:"):
        return False
    return s[4:].find("://", 1) >= 1
