"""Reference model of what browsing into a ZIP archive must look like: the tree one gets by
extracting the archive (directories implied by member paths, symbolic links resolved only to other
members).  Built from zipfile.infolist() independently of pygopherd's VFSZip."""
from __future__ import annotations

import posixpath
import stat
import zipfile


def member_name(info: zipfile.ZipInfo) -> str:
    """Member names are byte strings: UTF-8 when flag bit 11 is set, otherwise the raw bytes
    (which zipfile decoded as cp437) -- shown with surrogate escapes."""
    if info.flag_bits & 0x800:
        return info.filename.encode("utf-8").decode("utf-8", "surrogateescape")
    return info.filename.encode("cp437").decode("utf-8", "surrogateescape")


def build(zf: zipfile.ZipFile):
    """Returns tree: dict path -> ('dir', set(names)) | ('file', bytes).  Paths have no leading
    or trailing slash; the root is ''."""
    dirs = {"": set()}
    files = {}
    links = {}

    def mkdirs(p):
        parts = [x for x in p.split("/") if x]
        cur = ""
        for part in parts:
            nxt = (cur + "/" + part) if cur else part
            dirs.setdefault(cur, set()).add(part)
            dirs.setdefault(nxt, set())
            cur = nxt

    for info in zf.infolist():
        name = member_name(info).lstrip("/")
        if name.endswith("/"):
            mkdirs(name)
            continue
        d, base = posixpath.split(name)
        mkdirs(d)
        if stat.S_ISLNK(info.external_attr >> 16):
            links[name] = (d, zf.read(info.filename).decode("utf-8", "surrogateescape"))
        else:
            files[name] = zf.read(info.filename)
            dirs[d].add(base)

    def resolve(path, depth=0):
        """-> ('dir', path) | ('file', path) | None"""
        if depth > 40:
            return None
        path = posixpath.normpath(path) if path else ""
        if path in (".", ""):
            return ("dir", "")
        if path.startswith(".."):
            return None
        if path in files:
            return ("file", path)
        if path in dirs:
            return ("dir", path)
        # resolve component-wise through links
        parts = path.split("/")
        cur = ""
        for i, part in enumerate(parts):
            nxt = (cur + "/" + part) if cur else part
            if nxt in links:
                d, target = links[nxt]
                if target.startswith("/"):
                    tgt = target[1:]
                else:
                    tgt = posixpath.join(d, target)
                r = resolve(tgt, depth + 1)
                if r is None:
                    return None
                rest = "/".join(parts[i + 1:])
                if not rest:
                    return r
                if r[0] != "dir":
                    return None
                return resolve((r[1] + "/" + rest) if r[1] else rest, depth + 1)
            if nxt in files:
                return ("file", nxt) if i == len(parts) - 1 else None
            if nxt not in dirs:
                return None
            cur = nxt
        return ("dir", cur)

    tree = {}
    for d, names in dirs.items():
        tree[d] = ("dir", set(names))
    for f, data in files.items():
        tree[f] = ("file", data)
    # links appear in their directory iff they resolve to a member
    for l, (d, target) in links.items():
        r = resolve(l)
        if r is None:
            continue
        base = posixpath.basename(l)
        tree[d][1].add(base)
    return tree, resolve, files, dirs


def lookup(tree_resolve, path):
    tree, resolve, files, dirs = tree_resolve
    r = resolve(path)
    if r is None:
        return None
    if r[0] == "file":
        return ("file", files[r[1]])
    names = set(tree[r[1]][1])
    return ("dir", names)
